// Package sess drives one tunnel: opens a transport, sends transport units, reads to end-of-stream and
// returns what the gateway sent, cut into packets by the harness's own framing.
package sess

import (
	"errors"
	"fmt"
	"os"
	"sync/atomic"
	"time"

	"verif/harness/lab/gwc"
	"verif/harness/lab/tsgu"
)

var idCtr uint64

// NewConnID returns a process-unique RDG connection identifier.
func NewConnID() string {
	n := atomic.AddUint64(&idCtr, 1)
	return fmt.Sprintf("{%08x-%04x-4000-8000-%012x}", os.Getpid(), n>>32&0xffff, n&0xffffffffffff)
}

type Result struct {
	Kind       string
	OpenStatus int      // 0 = transport opened; otherwise the HTTP status that refused it (-1 = other error)
	OpenErr    string   //
	Pkts       [][]byte // server packets in order
	Rest       []byte   // legacy: trailing bytes that do not frame as packets
	UnitsOK    bool     // websocket: every message was exactly one packet (always true on legacy)
	Ended      bool     // the gateway ended the tunnel (ws: EOF/close; legacy: IN connection closed)
	OutEnded   bool     // legacy: the RDG_OUT_DATA connection reached end-of-stream as well (ws: same as Ended)
	SendErr    string
	SleepSync  bool
}

const EndWait = 10 * time.Second

// Collect waits for the end of the tunnel and gathers the server packets.
func Collect(c gwc.Conn, wait time.Duration) Result {
	r := Result{Kind: c.Kind(), UnitsOK: true}
	switch cc := c.(type) {
	case *gwc.WS:
		r.Ended = cc.WaitEOF(wait)
		r.OutEnded = r.Ended
		for _, u := range cc.Units() {
			p, rest := tsgu.SplitStream(u)
			if len(p) != 1 || rest != nil {
				r.UnitsOK = false
			}
			r.Pkts = append(r.Pkts, p...)
			if rest != nil {
				r.Rest = append(r.Rest, rest...)
			}
		}
	case *gwc.Legacy:
		r.Ended = cc.WaitInClosed(wait)
		cc.Settle()
		r.OutEnded = cc.WaitEOF(5 * time.Second) // immediate when Settle already saw the end
		r.Pkts, r.Rest = tsgu.SplitStream(cc.Stream())
		r.SleepSync = cc.SleepSync
	}
	return r
}

// Run opens a transport of the given kind, sends the units (pipelined, one transport unit each) and
// collects until the tunnel ends.
func Run(kind string, t gwc.Target, units [][]byte) Result {
	c, err := gwc.Dial(kind, t, NewConnID())
	if err != nil {
		r := Result{Kind: kind, OpenStatus: -1, OpenErr: err.Error()}
		var he *gwc.HTTPStatusError
		if errors.As(err, &he) {
			r.OpenStatus = he.Code
		}
		return r
	}
	defer c.Close()
	var sendErr string
	for _, u := range units {
		if err := c.Send(u); err != nil {
			sendErr = err.Error() // the gateway may already have closed; keep going to collect
			break
		}
	}
	r := Collect(c, EndWait)
	r.SendErr = sendErr
	return r
}

// RunOn sends the units on an already opened transport and collects until the tunnel ends.
func RunOn(c gwc.Conn, units [][]byte) Result {
	defer c.Close()
	var sendErr string
	for _, u := range units {
		if err := c.Send(u); err != nil {
			sendErr = err.Error()
			break
		}
	}
	r := Collect(c, EndWait)
	r.SendErr = sendErr
	return r
}

// Decode strictly decodes all packets; the first error is returned with its index.
func Decode(pkts [][]byte) ([]tsgu.Resp, error) {
	var out []tsgu.Resp
	for i, p := range pkts {
		r, err := tsgu.Decode(p)
		if err != nil {
			return out, fmt.Errorf("server packet %d: %w (bytes %x)", i, err, trunc(p))
		}
		out = append(out, r)
	}
	return out, nil
}

func trunc(b []byte) []byte {
	if len(b) > 48 {
		return b[:48]
	}
	return b
}
