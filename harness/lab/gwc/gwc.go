// Package gwc is the harness's own client for the gateway endpoint: a minimal RFC 6455 websocket client
// and a legacy RDG_OUT_DATA / RDG_IN_DATA client, both with transport-unit level control.
package gwc

import (
	"bufio"
	"bytes"
	"crypto/rand"
	"crypto/tls"
	"encoding/base64"
	"encoding/binary"
	"errors"
	"fmt"
	"io"
	"net"
	"strconv"
	"strings"
	"sync"
	"sync/atomic"
	"time"

	"verif/harness/lab/procnet"
)

const GatewayPath = "/remoteDesktopGateway/"

type Target struct {
	Addr    string      // host:port of the gateway
	TLS     bool        // speak TLS (certificate not verified)
	Headers [][2]string // extra request headers (Authorization, X-Forwarded-For, Cookie …)
	LocalIP string      // bind the client socket to this address ("" = any)
	Path    string      // default GatewayPath
}

func (t Target) path() string {
	if t.Path == "" {
		return GatewayPath
	}
	return t.Path
}

func (t Target) Dial() (net.Conn, error) {
	d := net.Dialer{Timeout: 5 * time.Second}
	if t.LocalIP != "" {
		d.LocalAddr = &net.TCPAddr{IP: net.ParseIP(t.LocalIP)}
	}
	c, err := d.Dial("tcp", t.Addr)
	if err != nil {
		return nil, err
	}
	if t.TLS {
		tc := tls.Client(c, &tls.Config{InsecureSkipVerify: true})
		if err := tc.Handshake(); err != nil {
			c.Close()
			return nil, err
		}
		return tc, nil
	}
	return c, nil
}

func rawTCP(c net.Conn) *net.TCPConn {
	switch x := c.(type) {
	case *net.TCPConn:
		return x
	case *tls.Conn:
		if t, ok := x.NetConn().(*net.TCPConn); ok {
			return t
		}
	}
	return nil
}

// HTTPStatusError is returned when the gateway answered the opening request with something other
// than the expected 101/200.
type HTTPStatusError struct {
	Code   int
	Header map[string][]string
	Body   []byte
}

func (e *HTTPStatusError) Error() string { return fmt.Sprintf("http status %d", e.Code) }

// Conn is one client-side tunnel transport.
type Conn interface {
	// Send transmits one transport unit (one websocket binary message, or one HTTP chunk).
	Send(unit []byte) error
	// Units returns the transport units received so far (websocket: messages; legacy: raw reads).
	Units() [][]byte
	Stream() []byte
	// WaitEOF waits until the gateway ended the server->client stream (EOF, reset or close frame).
	WaitEOF(d time.Duration) bool
	// WaitBytes waits until at least n bytes were received in total (or EOF).
	WaitBytes(n int, d time.Duration) bool
	// InClosed reports (legacy only) whether the gateway closed the client->server connection.
	WaitInClosed(d time.Duration) bool
	Close()
	Kind() string
}

// ---------------------------------------------------------------------------------------------

type collector struct {
	mu    sync.Mutex
	cond  *sync.Cond
	units [][]byte
	total int
	eof   bool
	err   error
}

func newCollector() *collector { c := &collector{}; c.cond = sync.NewCond(&c.mu); return c }
func (c *collector) add(b []byte) {
	c.mu.Lock()
	c.units = append(c.units, b)
	c.total += len(b)
	c.cond.Broadcast()
	c.mu.Unlock()
}
func (c *collector) end(err error) {
	c.mu.Lock()
	c.eof = true
	c.err = err
	c.cond.Broadcast()
	c.mu.Unlock()
}
func (c *collector) wait(d time.Duration, pred func() bool) bool {
	deadline := time.Now().Add(d)
	tm := time.AfterFunc(d, func() { c.mu.Lock(); c.cond.Broadcast(); c.mu.Unlock() })
	defer tm.Stop()
	c.mu.Lock()
	defer c.mu.Unlock()
	for !pred() {
		if !time.Now().Before(deadline) {
			return false
		}
		c.cond.Wait()
	}
	return true
}
func (c *collector) Units() [][]byte {
	c.mu.Lock()
	defer c.mu.Unlock()
	out := make([][]byte, len(c.units))
	copy(out, c.units)
	return out
}
func (c *collector) Stream() []byte {
	c.mu.Lock()
	defer c.mu.Unlock()
	var b []byte
	for _, u := range c.units {
		b = append(b, u...)
	}
	return b
}
func (c *collector) WaitEOF(d time.Duration) bool { return c.wait(d, func() bool { return c.eof }) }
func (c *collector) WaitBytes(n int, d time.Duration) bool {
	return c.wait(d, func() bool { return c.total >= n || c.eof }) && c.total >= n
}

// ---------------------------------------------------------------------------------------------
// HTTP helpers

func writeRequest(c net.Conn, method, path, host string, hdr [][2]string) error {
	var b bytes.Buffer
	fmt.Fprintf(&b, "%s %s HTTP/1.1\r\nHost: %s\r\n", method, path, host)
	for _, h := range hdr {
		fmt.Fprintf(&b, "%s: %s\r\n", h[0], h[1])
	}
	b.WriteString("\r\n")
	_, err := c.Write(b.Bytes())
	return err
}

// readResponseHead reads a status line and headers. It does not read a body.
func readResponseHead(br *bufio.Reader) (code int, hdr map[string][]string, err error) {
	line, err := br.ReadString('\n')
	if err != nil {
		return 0, nil, err
	}
	f := strings.SplitN(strings.TrimSpace(line), " ", 3)
	if len(f) < 2 || !strings.HasPrefix(f[0], "HTTP/") {
		return 0, nil, fmt.Errorf("bad status line %q", line)
	}
	code, err = strconv.Atoi(f[1])
	if err != nil {
		return 0, nil, fmt.Errorf("bad status line %q", line)
	}
	hdr = map[string][]string{}
	for {
		l, err := br.ReadString('\n')
		if err != nil {
			return code, hdr, err
		}
		l = strings.TrimRight(l, "\r\n")
		if l == "" {
			return code, hdr, nil
		}
		i := strings.IndexByte(l, ':')
		if i < 0 {
			continue
		}
		k := strings.ToLower(strings.TrimSpace(l[:i]))
		hdr[k] = append(hdr[k], strings.TrimSpace(l[i+1:]))
	}
}

func readBodyFor(br *bufio.Reader, hdr map[string][]string) []byte {
	if cl := hdr["content-length"]; len(cl) > 0 {
		n, _ := strconv.Atoi(cl[0])
		if n > 0 && n < 1<<20 {
			b := make([]byte, n)
			io.ReadFull(br, b)
			return b
		}
	}
	return nil
}

// ---------------------------------------------------------------------------------------------
// Websocket

type WS struct {
	*collector
	c        net.Conn
	wmu      sync.Mutex
	FragSize int // >0: split each message into continuation frames of at most this many bytes
	closed   bool
	paused   atomic.Bool
}

func (w *WS) Kind() string { return "ws" }

// DialWS performs the RDG_OUT_DATA websocket upgrade. connID may be "".
func DialWS(t Target, connID string) (*WS, error) {
	return DialWSMethod(t, connID, "RDG_OUT_DATA")
}

func DialWSMethod(t Target, connID string, method string) (*WS, error) {
	c, err := t.Dial()
	if err != nil {
		return nil, err
	}
	key := make([]byte, 16)
	rand.Read(key)
	hdr := [][2]string{
		{"Connection", "Upgrade"}, {"Upgrade", "websocket"},
		{"Sec-WebSocket-Version", "13"}, {"Sec-WebSocket-Key", base64.StdEncoding.EncodeToString(key)},
	}
	if connID != "" {
		hdr = append(hdr, [2]string{"Rdg-Connection-Id", connID})
	}
	hdr = append(hdr, t.Headers...)
	c.SetDeadline(time.Now().Add(30 * time.Second))
	if err := writeRequest(c, method, t.path(), t.Addr, hdr); err != nil {
		c.Close()
		return nil, err
	}
	br := bufio.NewReader(c)
	code, h, err := readResponseHead(br)
	if err != nil {
		c.Close()
		return nil, err
	}
	if code != 101 {
		body := readBodyFor(br, h)
		c.Close()
		return nil, &HTTPStatusError{Code: code, Header: h, Body: body}
	}
	c.SetDeadline(time.Time{})
	w := &WS{collector: newCollector(), c: c}
	go w.readLoop(br)
	return w, nil
}

func (w *WS) readLoop(br *bufio.Reader) {
	var msg []byte
	inMsg := false
	for {
		for w.paused.Load() { // a stalled client: nothing is read from the socket
			time.Sleep(time.Millisecond)
		}
		var h [2]byte
		if _, err := io.ReadFull(br, h[:]); err != nil {
			w.end(err)
			return
		}
		fin := h[0]&0x80 != 0
		op := h[0] & 0x0f
		masked := h[1]&0x80 != 0
		l := uint64(h[1] & 0x7f)
		if l == 126 {
			var e [2]byte
			if _, err := io.ReadFull(br, e[:]); err != nil {
				w.end(err)
				return
			}
			l = uint64(binary.BigEndian.Uint16(e[:]))
		} else if l == 127 {
			var e [8]byte
			if _, err := io.ReadFull(br, e[:]); err != nil {
				w.end(err)
				return
			}
			l = binary.BigEndian.Uint64(e[:])
		}
		var mk [4]byte
		if masked {
			if _, err := io.ReadFull(br, mk[:]); err != nil {
				w.end(err)
				return
			}
		}
		if l > 64<<20 {
			w.end(errors.New("oversized frame"))
			return
		}
		p := make([]byte, l)
		if _, err := io.ReadFull(br, p); err != nil {
			w.end(err)
			return
		}
		if masked {
			for i := range p {
				p[i] ^= mk[i%4]
			}
		}
		switch op {
		case 0x8: // close
			w.end(io.EOF)
			return
		case 0x9: // ping
			w.writeFrame(0xA, true, p)
		case 0xA:
		case 0x0, 0x1, 0x2:
			if op != 0 {
				msg = nil
				inMsg = true
			}
			if inMsg {
				msg = append(msg, p...)
				if fin {
					w.add(msg)
					msg = nil
					inMsg = false
				}
			}
		}
	}
}

func (w *WS) writeFrame(op byte, fin bool, p []byte) error {
	var b bytes.Buffer
	b0 := op
	if fin {
		b0 |= 0x80
	}
	b.WriteByte(b0)
	switch {
	case len(p) < 126:
		b.WriteByte(0x80 | byte(len(p)))
	case len(p) < 65536:
		b.WriteByte(0x80 | 126)
		binary.Write(&b, binary.BigEndian, uint16(len(p)))
	default:
		b.WriteByte(0x80 | 127)
		binary.Write(&b, binary.BigEndian, uint64(len(p)))
	}
	var mk [4]byte
	rand.Read(mk[:])
	b.Write(mk[:])
	off := b.Len()
	b.Write(p)
	bb := b.Bytes()
	for i := range p {
		bb[off+i] ^= mk[i%4]
	}
	w.wmu.Lock()
	defer w.wmu.Unlock()
	w.c.SetWriteDeadline(time.Now().Add(10 * time.Second))
	_, err := w.c.Write(bb)
	return err
}

// Send sends one binary message (optionally fragmented into continuation frames).
func (w *WS) Send(unit []byte) error {
	if w.FragSize <= 0 || len(unit) <= w.FragSize {
		return w.writeFrame(0x2, true, unit)
	}
	first := true
	for len(unit) > 0 {
		n := w.FragSize
		if n > len(unit) {
			n = len(unit)
		}
		op := byte(0)
		if first {
			op = 0x2
		}
		if err := w.writeFrame(op, n == len(unit), unit[:n]); err != nil {
			return err
		}
		unit = unit[n:]
		first = false
	}
	return nil
}

// AdoptWS wraps a connection on which the websocket upgrade has already been completed by the caller.
func AdoptWS(c net.Conn, br *bufio.Reader) *WS {
	w := &WS{collector: newCollector(), c: c}
	go w.readLoop(br)
	return w
}

// Pause makes the client stop reading from its socket (true) or resume (false).
func (w *WS) Pause(p bool) { w.paused.Store(p) }

// SendText sends a text message (the gateway must treat it as an error).
func (w *WS) SendText(p []byte) error { return w.writeFrame(0x1, true, p) }

// SendPing sends a websocket ping control frame (a client or a proxy in between may do so at any time).
func (w *WS) SendPing(payload []byte) error { return w.writeFrame(0x9, true, payload) }

// SendClose sends a websocket close frame.
func (w *WS) SendClose() error { return w.writeFrame(0x8, true, []byte{0x03, 0xe8}) }

func (w *WS) WaitInClosed(d time.Duration) bool { return w.WaitEOF(d) }

func (w *WS) Close() { w.c.Close() }

// Reset closes with RST (SO_LINGER 0) when the connection is plain TCP.
func (w *WS) Reset() {
	if tc, ok := w.c.(*net.TCPConn); ok {
		tc.SetLinger(0)
	}
	w.c.Close()
}

// SyncPeer waits until the gateway has consumed everything sent so far.
func (w *WS) SyncPeer() bool {
	if t := rawTCP(w.c); t != nil {
		return procnet.WaitPeerDrained(t, 2*time.Second)
	}
	return false
}

// RawConn exposes the underlying connection.
func (w *WS) RawConn() net.Conn { return w.c }

// ---------------------------------------------------------------------------------------------
// Legacy

type Legacy struct {
	*collector          // OUT stream
	out        net.Conn // RDG_OUT_DATA connection
	in         net.Conn // RDG_IN_DATA connection
	inEOF      chan struct{}
	OutHead    int // status of OUT
	InHead     int
	Seed       []byte
	SleepSync  bool // true if /proc/net/tcp sync was unavailable and a sleep was used
	// Pipeline = false (default): after every chunk wait until the gateway has consumed it, so that no two
	// chunks are ever in flight together and the result does not depend on how the gateway's reader
	// handles coalesced or split reads (that is C08's subject, checked there with Pipeline = true).
	Pipeline bool
	// FirstWithHead: (set before OpenIn) the first chunk of the RDG_IN_DATA body travels in the same write as the
	// request head, as a client or proxy that does not wait for the 200 would send it.
	FirstWithHead []byte
	// HoldPreamble: (set before OpenIn) do not send the preamble after the 200; SendPreamble does it later.
	HoldPreamble bool
	preambleSent bool
	inRaw        *net.TCPConn
	id       string
	wmu      sync.Mutex
}

func (l *Legacy) Kind() string  { return "legacy" }
func (l *Legacy) Seed2() string { return l.id }

// OpenOut opens the RDG_OUT_DATA connection and reads the 200 + 10 byte seed.
func OpenOut(t Target, connID string) (*Legacy, error) {
	c, err := t.Dial()
	if err != nil {
		return nil, err
	}
	hdr := [][2]string{{"Rdg-Connection-Id", connID}, {"Accept", "*/*"}, {"Cache-Control", "no-cache"}}
	hdr = append(hdr, t.Headers...)
	c.SetDeadline(time.Now().Add(30 * time.Second))
	if err := writeRequest(c, "RDG_OUT_DATA", t.path(), t.Addr, hdr); err != nil {
		c.Close()
		return nil, err
	}
	br := bufio.NewReader(c)
	code, h, err := readResponseHead(br)
	if err != nil {
		c.Close()
		return nil, err
	}
	if code != 200 {
		body := readBodyFor(br, h)
		c.Close()
		return nil, &HTTPStatusError{Code: code, Header: h, Body: body}
	}
	seed := make([]byte, 10)
	if _, err := io.ReadFull(br, seed); err != nil {
		c.Close()
		return nil, fmt.Errorf("reading OUT seed: %w", err)
	}
	c.SetDeadline(time.Time{})
	l := &Legacy{collector: newCollector(), out: c, OutHead: code, Seed: seed, id: connID}
	go func() {
		for {
			buf := make([]byte, 65536)
			n, err := br.Read(buf)
			if n > 0 {
				l.add(buf[:n])
			}
			if err != nil {
				l.end(err)
				return
			}
		}
	}()
	return l, nil
}

// OpenInOnly opens an RDG_IN_DATA connection without a preceding OUT (for ordering probes).
func OpenInOnly(t Target, connID string) (*Legacy, error) {
	l := &Legacy{collector: newCollector()}
	l.end(io.EOF)
	return l, l.OpenIn(t, connID)
}

// AdoptIn takes over the RDG_IN_DATA connection that other opened (for the same connection id).
func (l *Legacy) AdoptIn(other *Legacy) {
	l.in, l.inRaw, l.inEOF, l.InHead, l.preambleSent = other.in, other.inRaw, other.inEOF, other.InHead, other.preambleSent
	other.in, other.inRaw = nil, nil
}

// OpenInOnlyHeld is OpenInOnly without the preamble (SendPreamble sends it).
func OpenInOnlyHeld(t Target, connID string) (*Legacy, error) {
	l := &Legacy{collector: newCollector(), HoldPreamble: true}
	l.end(io.EOF)
	return l, l.OpenIn(t, connID)
}

// OpenIn opens the RDG_IN_DATA connection, waits for the 200, sends the preamble that the gateway
// drains, and waits until the gateway has consumed it.
func (l *Legacy) OpenIn(t Target, connID string) error {
	c, err := t.Dial()
	if err != nil {
		return err
	}
	hdr := [][2]string{{"Rdg-Connection-Id", connID}, {"Transfer-Encoding", "chunked"}, {"Cache-Control", "no-cache"}}
	hdr = append(hdr, t.Headers...)
	c.SetDeadline(time.Now().Add(30 * time.Second))
	if len(l.FirstWithHead) > 0 {
		var rb bytes.Buffer
		writeRequest(&bufConn{&rb}, "RDG_IN_DATA", t.path(), t.Addr, hdr)
		rb.Write(chunk(l.FirstWithHead))
		if _, err := c.Write(rb.Bytes()); err != nil {
			c.Close()
			return err
		}
	} else if err := writeRequest(c, "RDG_IN_DATA", t.path(), t.Addr, hdr); err != nil {
		c.Close()
		return err
	}
	br := bufio.NewReader(c)
	// An accepting gateway answers at once. A refusing one (no hijack) first tries to read the rest of the
	// chunked request body, so end the body if nothing has arrived after a short while.
	endedEarly := false
	// first let the gateway read the request: a terminating chunk that reaches its buffered reader together with the
	// request head would end the body of an accepted RDG_IN_DATA before its first packet (busy machine)
	if raw := rawTCP(c); raw != nil {
		procnet.WaitPeerDrained(raw, 30*time.Second)
	}
	c.SetReadDeadline(time.Now().Add(300 * time.Millisecond))
	if _, perr := br.Peek(1); perr != nil {
		if ne, ok := perr.(net.Error); !ok || !ne.Timeout() {
			c.Close()
			return perr
		}
		c.Write([]byte("0\r\n\r\n"))
		endedEarly = true
	}
	c.SetReadDeadline(time.Now().Add(30 * time.Second))
	code, h, err := readResponseHead(br)
	if err != nil {
		c.Close()
		return err
	}
	l.InHead = code
	if code != 200 {
		body := readBodyFor(br, h)
		c.Close()
		return &HTTPStatusError{Code: code, Header: h, Body: body}
	}
	c.SetDeadline(time.Time{})
	l.in = c
	l.inEOF = make(chan struct{})
	go func() {
		io.Copy(io.Discard, br)
		close(l.inEOF)
	}()
	l.inRaw = rawTCP(c)
	if endedEarly {
		// a busy gateway accepted after all, more than 300 ms later: the five bytes sent meanwhile are what its single raw
		// read consumes - they are the preamble now, and a second one would reach the chunk reader as rubbish
		l.preambleSent = true
		if l.inRaw == nil || !procnet.WaitPeerDrained(l.inRaw, 30*time.Second) {
			time.Sleep(30 * time.Millisecond)
			l.SleepSync = true
		}
		return nil
	}
	if l.HoldPreamble {
		return nil
	}
	return l.SendPreamble()
}

// SendPreamble sends the bytes the gateway's single raw read consumes and waits until they have been consumed.
func (l *Legacy) SendPreamble() error {
	if l.preambleSent {
		return nil
	}
	l.preambleSent = true
	c := l.in
	pre := make([]byte, 64)
	rand.Read(pre)
	if _, err := c.Write(pre); err != nil {
		return err
	}
	// The gateway discards whatever its first raw read returns: a chunk that travels with the preamble would be
	// lost with it. On a busy machine that read can be seconds away, so wait for it much longer than for
	// ordinary chunks (which may coalesce without harm).
	if l.inRaw == nil || !procnet.WaitPeerDrained(l.inRaw, 30*time.Second) {
		time.Sleep(30 * time.Millisecond)
		l.SleepSync = true
	}
	return nil
}

func chunk(p []byte) []byte {
	var b bytes.Buffer
	fmt.Fprintf(&b, "%x\r\n", len(p))
	b.Write(p)
	b.WriteString("\r\n")
	return b.Bytes()
}

// Send writes one HTTP chunk with a single write call.
func (l *Legacy) Send(unit []byte) error {
	if l.in == nil {
		return errors.New("IN connection not open")
	}
	if len(unit) == 0 {
		return nil // a zero-length chunk would terminate the body
	}
	l.wmu.Lock()
	defer l.wmu.Unlock()
	l.in.SetWriteDeadline(time.Now().Add(10 * time.Second))
	_, err := l.in.Write(chunk(unit))
	if err == nil && !l.Pipeline {
		l.syncIn()
	}
	return err
}

// SyncPeer waits until the gateway has consumed everything sent on the IN connection.
func (l *Legacy) SyncPeer() bool {
	if l.inRaw != nil {
		return procnet.WaitPeerDrained(l.inRaw, 2*time.Second)
	}
	return false
}

func (l *Legacy) syncIn() {
	if l.inRaw != nil && procnet.WaitPeerDrained(l.inRaw, 2*time.Second) {
		return
	}
	time.Sleep(30 * time.Millisecond)
	l.SleepSync = true
}

// SendChunks writes several chunks with one write call (they reach the gateway coalesced).
func (l *Legacy) SendChunks(units [][]byte) error {
	var b []byte
	for _, u := range units {
		if len(u) > 0 {
			b = append(b, chunk(u)...)
		}
	}
	l.wmu.Lock()
	defer l.wmu.Unlock()
	l.in.SetWriteDeadline(time.Now().Add(10 * time.Second))
	_, err := l.in.Write(b)
	return err
}

// SendWithEnd writes one chunk and the terminating zero-length chunk of the request body with a single write (a client
// or proxy that ends the RDG_IN_DATA body right behind its last packet).
func (l *Legacy) SendWithEnd(unit []byte) error {
	l.wmu.Lock()
	defer l.wmu.Unlock()
	l.in.SetWriteDeadline(time.Now().Add(10 * time.Second))
	_, err := l.in.Write(append(chunk(unit), []byte("0\r\n\r\n")...))
	return err
}

// SendRawIn writes bytes on the IN connection without chunk framing.
func (l *Legacy) SendRawIn(b []byte) error {
	l.wmu.Lock()
	defer l.wmu.Unlock()
	_, err := l.in.Write(b)
	return err
}

func (l *Legacy) WaitInClosed(d time.Duration) bool {
	if l.inEOF == nil {
		return true
	}
	select {
	case <-l.inEOF:
		return true
	case <-time.After(d):
		return false
	}
}

// Settle is called after the gateway closed the IN connection: it waits until the OUT stream has been
// quiet (nothing queued in the kernel, nothing new collected) for a few consecutive polls, or reached EOF.
func (l *Legacy) Settle() {
	if l.out == nil {
		return
	}
	// A gateway that releases the tunnel closes RDG_OUT_DATA as well: end-of-stream is the exact barrier
	// (everything written before it has been collected). Only when that does not happen within a second
	// fall back to watching for a quiet period.
	if l.WaitEOF(time.Second) {
		return
	}
	last := -1
	quiet := 0
	deadline := time.Now().Add(2 * time.Second)
	for quiet < 8 && time.Now().Before(deadline) {
		l.mu.Lock()
		tot, eof := l.total, l.eof
		l.mu.Unlock()
		if eof {
			return
		}
		q := procnet.InQueue(l.out)
		if q == 0 && tot == last {
			quiet++
		} else {
			quiet = 0
		}
		last = tot
		time.Sleep(500 * time.Microsecond)
	}
}

func (l *Legacy) Close() {
	if l.in != nil {
		l.in.Close()
	}
	if l.out != nil {
		l.out.Close()
	}
}
func (l *Legacy) CloseIn(reset bool) {
	if l.in == nil {
		return
	}
	if tc, ok := l.in.(*net.TCPConn); ok && reset {
		tc.SetLinger(0)
	}
	l.in.Close()
}
func (l *Legacy) CloseOut(reset bool) {
	if l.out == nil {
		return
	}
	if tc, ok := l.out.(*net.TCPConn); ok && reset {
		tc.SetLinger(0)
	}
	l.out.Close()
}

// DialLegacy opens OUT then IN with the same connection id.
func DialLegacy(t Target, connID string) (*Legacy, error) {
	l, err := OpenOut(t, connID)
	if err != nil {
		return nil, err
	}
	if err := l.OpenIn(t, connID); err != nil {
		l.Close()
		return nil, err
	}
	return l, nil
}

// DialLegacySplit opens OUT with one target and IN with another (e.g. from different client addresses).
func DialLegacySplit(tOut, tIn Target, connID string) (*Legacy, error) {
	l, err := OpenOut(tOut, connID)
	if err != nil {
		return nil, err
	}
	if err := l.OpenIn(tIn, connID); err != nil {
		l.Close()
		return nil, err
	}
	return l, nil
}

// Dial opens a tunnel transport of the given kind ("ws" or "legacy").
func Dial(kind string, t Target, connID string) (Conn, error) {
	if kind == "legacy" {
		return DialLegacy(t, connID)
	}
	return DialWS(t, connID)
}

// RawHTTP sends arbitrary request bytes and returns everything the server answered until it closed the
// connection or the deadline passed.
func RawHTTP(t Target, req []byte, d time.Duration) (resp []byte, err error) {
	c, err := t.Dial()
	if err != nil {
		return nil, err
	}
	defer c.Close()
	c.SetDeadline(time.Now().Add(d))
	if _, err := c.Write(req); err != nil {
		return nil, err
	}
	var b bytes.Buffer
	_, err = io.Copy(&b, c)
	return b.Bytes(), err
}

// bufConn lets writeRequest render into a buffer.
type bufConn struct{ b *bytes.Buffer }

func (c *bufConn) Write(p []byte) (int, error)        { return c.b.Write(p) }
func (c *bufConn) Read(p []byte) (int, error)         { return 0, io.EOF }
func (c *bufConn) Close() error                       { return nil }
func (c *bufConn) LocalAddr() net.Addr                { return nil }
func (c *bufConn) RemoteAddr() net.Addr               { return nil }
func (c *bufConn) SetDeadline(t time.Time) error      { return nil }
func (c *bufConn) SetReadDeadline(t time.Time) error  { return nil }
func (c *bufConn) SetWriteDeadline(t time.Time) error { return nil }
