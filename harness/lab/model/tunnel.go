// Package model holds the reference models, written from the property statements and MS-TSGU, not from
// the code under test.
package model

import (
	"bytes"
	"fmt"
	"sort"
	"strings"

	"verif/harness/lab/tsgu"
)

// Phases of one tunnel.
const (
	PInit = iota
	PHandshaked
	PTunnel
	PAuthorized
	PChannel // channel open, no data yet
	POpen    // channel open, data seen
)

var phaseName = []string{"Init", "Handshaked", "TunnelCreated", "Authorized", "ChannelOpen", "ChannelOpen+Data"}

// Ev is one client packet as classified by the harness (never by the gateway).
type Ev struct {
	Kind string `json:"kind"` // hs tc ta cc data ka close unknown
	WF   bool   `json:"wf"`   // body is well-formed for its type
	// reference verdicts computed by the case builder:
	CapsOK   bool   `json:"caps_ok,omitempty"`   // hs: C17 predicate
	CookieOK bool   `json:"cookie_ok,omitempty"` // tc under token auth: reference verifier accepts the cookie
	Host     string `json:"host,omitempty"`      // cc: "allow-up" | "allow-down" | "deny"
	Listener string `json:"listener,omitempty"`  // cc allow-up: label of the listener that must accept
	Payload  []byte `json:"payload,omitempty"`   // data: declared payload
	Major    byte   `json:"major,omitempty"`
	Minor    byte   `json:"minor,omitempty"`
	NameDenied bool `json:"name_denied,omitempty"` // ta: the client-name policy of the gateway refuses the name
	// MayPass: a malformed packet that the gateway may also legitimately accept as its step
	MayPass bool `json:"may_pass,omitempty"`
}

type Cfg struct {
	ServerCaps uint16
	TokenAuth  bool
}

// Obs is what the harness observed for one tunnel.
type Obs struct {
	Resps   []tsgu.Resp       // all server packets, in order (DATA included)
	Ended   bool              // the gateway ended the tunnel
	Accepts map[string]int    // listener label -> connections accepted during the case
	Bytes   map[string][]byte // listener label -> bytes received during the case
}

type state struct {
	phase int
	dead  bool
	ri    int
	acc   string
	relay []int
}

func (s state) key() string {
	return fmt.Sprintf("%d/%v/%d/%s/%v", s.phase, s.dead, s.ri, s.acc, s.relay)
}

type Failure struct {
	Sig string
	Msg string
}

func (f *Failure) Error() string { return f.Msg }

func isRespType(t uint16) bool {
	switch t {
	case tsgu.PktHandshakeResponse, tsgu.PktTunnelResponse, tsgu.PktTunnelAuthResponse, tsgu.PktChannelResponse, tsgu.PktCloseChannelResponse:
		return true
	}
	return false
}

// CheckTunnel decides whether the observed history is one the reference model allows for the sent events.
func CheckTunnel(cfg Cfg, evs []Ev, obs Obs) *Failure {
	// DATA packets towards the client are not answers to requests; the caller checks them separately.
	var resps []tsgu.Resp
	for _, r := range obs.Resps {
		if r.Type != tsgu.PktData {
			resps = append(resps, r)
		}
	}
	for i, r := range resps {
		if !isRespType(r.Type) {
			return &Failure{"model/unexpected-packet-type", fmt.Sprintf("server packet %d has type %#x, which is not a response type", i, r.Type)}
		}
	}
	cur := map[string]state{"": {}}
	cur = map[string]state{state{}.key(): {}}
	for i, e := range evs {
		next := map[string]state{}
		for _, s := range cur {
			for _, n := range step(cfg, s, e, i, resps) {
				next[n.key()] = n
			}
		}
		if len(next) == 0 {
			return explain(cfg, cur, e, i, resps)
		}
		cur = next
	}
	// final acceptance
	var why []string
	keys := make([]string, 0, len(cur))
	for k := range cur {
		keys = append(keys, k)
	}
	sort.Strings(keys)
	var firstSig string
	for _, k := range keys {
		s := cur[k]
		sig, msg := final(s, evs, resps, obs)
		if msg == "" {
			return nil
		}
		if firstSig == "" {
			firstSig = sig
		}
		why = append(why, msg)
	}
	return &Failure{firstSig, strings.Join(why, " || ")}
}

func final(s state, evs []Ev, resps []tsgu.Resp, obs Obs) (string, string) {
	if s.ri != len(resps) {
		r := resps[s.ri]
		what := "error"
		if r.Status == 0 {
			what = "success"
		}
		if s.dead {
			return "model/answer-after-end/" + what, fmt.Sprintf("after the tunnel ended the gateway still sent %v (%d unexplained packets)", r, len(resps)-s.ri)
		}
		return "model/extra-response/" + what, fmt.Sprintf("unexplained server packet %v at position %d", r, s.ri)
	}
	if !obs.Ended {
		return "model/no-end", "the tunnel did not end although the history ends with a refused step"
	}
	if !s.dead {
		return "model/ended-early", fmt.Sprintf("the tunnel ended in phase %s without an error response although every packet was acceptable", phaseName[s.phase])
	}
	var want []byte
	for _, i := range s.relay {
		want = append(want, evs[i].Payload...)
	}
	labels := make([]string, 0, len(obs.Accepts))
	for l := range obs.Accepts {
		labels = append(labels, l)
	}
	sort.Strings(labels)
	for _, l := range labels {
		n := obs.Accepts[l]
		if l == s.acc {
			if n != 1 {
				return "model/accept-count", fmt.Sprintf("listener %s: %d connections, want exactly 1", l, n)
			}
			if !bytes.Equal(obs.Bytes[l], want) {
				return "model/relay-mismatch", fmt.Sprintf("listener %s received %d bytes, want %d (the payloads of the data packets sent while the channel was open)", l, len(obs.Bytes[l]), len(want))
			}
		} else {
			if n != 0 {
				if s.acc == "" {
					return "model/unauthorized-connection", fmt.Sprintf("listener %s accepted %d connection(s) although no channel creation was accepted", l, n)
				}
				return "model/wrong-listener", fmt.Sprintf("listener %s accepted %d connection(s); the channel was created for %s", l, n, s.acc)
			}
			if len(obs.Bytes[l]) != 0 {
				return "model/unauthorized-relay", fmt.Sprintf("listener %s received %d bytes", l, len(obs.Bytes[l]))
			}
		}
	}
	if s.acc != "" {
		if _, ok := obs.Accepts[s.acc]; !ok {
			return "model/accept-count", "accepting listener not observed"
		}
	}
	return "", ""
}

func take(s state, resps []tsgu.Resp, typ uint16) (tsgu.Resp, bool) {
	if s.ri < len(resps) && resps[s.ri].Type == typ {
		return resps[s.ri], true
	}
	return tsgu.Resp{}, false
}

// step returns the successor states of s for event e that are consistent with the observed responses.
func step(cfg Cfg, s state, e Ev, idx int, resps []tsgu.Resp) []state {
	if s.dead {
		return []state{s} // nothing further is answered, relayed or connected (checked in final)
	}
	var out []state
	adv := func(ph int) state { n := s; n.ri++; n.phase = ph; return n }
	die := func(consume bool) state {
		n := s
		n.dead = true
		if consume {
			n.ri++
		}
		return n
	}
	rt := map[string]uint16{"hs": tsgu.PktHandshakeResponse, "tc": tsgu.PktTunnelResponse, "ta": tsgu.PktTunnelAuthResponse,
		"cc": tsgu.PktChannelResponse, "close": tsgu.PktCloseChannelResponse}[e.Kind]
	// generic refusals: an error response of the matching type, or of any response type, or silence; then end
	refuse := func(status uint32) {
		if s.ri < len(resps) && resps[s.ri].Status != 0 {
			r := resps[s.ri]
			if status == 0 || r.Status == status {
				if rt == 0 || r.Type == rt {
					out = append(out, die(true))
				}
			}
		}
		if status == 0 {
			out = append(out, die(false)) // silent end
		}
	}
	succeed := func(ph int, ok func(tsgu.Resp) bool) bool {
		if r, has := take(s, resps, rt); has && r.Status == 0 && (ok == nil || ok(r)) {
			out = append(out, adv(ph))
			return true
		}
		return false
	}
	switch e.Kind {
	case "hs":
		if s.phase != PInit {
			refuse(0)
			break
		}
		if e.WF {
			if e.CapsOK {
				succeed(PHandshaked, func(r tsgu.Resp) bool {
					return r.ExtAuth == cfg.ServerCaps && r.Major == e.Major && r.Minor == e.Minor
				})
			} else {
				refuse(tsgu.ErrCapabilityMismatch)
			}
		} else {
			succeed(PHandshaked, nil)
			refuse(0)
		}
	case "tc":
		if s.phase != PHandshaked {
			refuse(0)
			break
		}
		switch {
		case !cfg.TokenAuth && (e.WF || e.MayPass):
			succeed(PTunnel, nil)
			if !e.WF {
				refuse(0)
			}
		case !cfg.TokenAuth:
			succeed(PTunnel, nil)
			refuse(0)
		case e.WF && e.CookieOK:
			succeed(PTunnel, nil)
		case e.WF:
			refuse(tsgu.ErrCookieDenied)
		default: // malformed under token auth: the generator never hides a valid cookie in it
			refuse(0)
		}
	case "ta":
		if s.phase != PTunnel {
			refuse(0)
			break
		}
		if e.NameDenied && e.WF {
			refuse(0) // the name policy says no: some non-zero status, then the end
			break
		}
		succeed(PAuthorized, nil)
		if !e.WF {
			refuse(0)
		}
	case "cc":
		if s.phase != PAuthorized {
			refuse(0)
			break
		}
		switch {
		case e.WF && e.Host == "allow-up":
			if r, has := take(s, resps, rt); has && r.Status == 0 {
				n := adv(PChannel)
				n.acc = e.Listener
				out = append(out, n)
			}
		case e.WF && e.Host == "allow-down":
			refuse(0) // some non-zero status, then end; silence also tolerated
		case e.WF:
			refuse(tsgu.ErrRAPDenied)
		default:
			refuse(0)
		}
	case "data":
		if s.phase == PChannel || s.phase == POpen {
			n := s
			n.phase = POpen
			n.relay = append(append([]int(nil), s.relay...), idx)
			out = append(out, n)
		} else {
			refuse(0)
		}
	case "ka":
		if s.phase == PChannel || s.phase == POpen {
			out = append(out, s)
		} else {
			refuse(0)
			out = append(out, s) // ignoring a keep-alive is not forbidden by the statement
		}
	case "close":
		switch s.phase {
		case POpen:
			if r, has := take(s, resps, rt); has && r.Status == 0 {
				out = append(out, die(true))
			}
		case PChannel:
			if r, has := take(s, resps, rt); has && r.Status == 0 {
				out = append(out, die(true))
			}
			out = append(out, die(false))
		default:
			refuse(0)
		}
	case "unframeable": // bytes that cannot be framed: the tunnel ends, with or without an error response
		refuse(0)
	default: // unknown / wrong-direction type: ignored or refused, never answered with success
		out = append(out, s)
		refuse(0)
	}
	return out
}

func explain(cfg Cfg, cur map[string]state, e Ev, idx int, resps []tsgu.Resp) *Failure {
	var phases []string
	seen := map[int]bool{}
	ri := -1
	for _, s := range cur {
		if !seen[s.phase] {
			seen[s.phase] = true
			phases = append(phases, phaseName[s.phase])
		}
		if s.ri > ri {
			ri = s.ri
		}
	}
	sort.Strings(phases)
	got := "no response"
	obs := "none"
	if ri >= 0 && ri < len(resps) {
		got = resps[ri].String()
		if resps[ri].Status == 0 {
			obs = "success"
		} else {
			obs = fmt.Sprintf("error-%08x", resps[ri].Status)
		}
	}
	detail := ""
	switch e.Kind {
	case "hs":
		detail = fmt.Sprintf(" capsOK=%v", e.CapsOK)
	case "tc":
		detail = fmt.Sprintf(" tokenAuth=%v cookieOK=%v", cfg.TokenAuth, e.CookieOK)
	case "cc":
		detail = " host=" + e.Host
	}
	wf := "wf"
	if !e.WF {
		wf = "malformed"
	}
	return &Failure{
		Sig: fmt.Sprintf("model/%s-%s@%s/%s", e.Kind, wf, strings.Join(phases, "+"), obs),
		Msg: fmt.Sprintf("packet #%d (%s, %s%s) in phase %s: the reference model allows no outcome that matches what the gateway sent next (%s)",
			idx, e.Kind, wf, detail, strings.Join(phases, "+"), got),
	}
}
