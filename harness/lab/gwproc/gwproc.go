// Package gwproc runs the real cmd/rdpgw binary (built by the driver from the working tree) as a child
// process with a generated configuration.
package gwproc

import (
	"bufio"
	"bytes"
	"crypto/ecdsa"
	"crypto/elliptic"
	"crypto/rand"
	"crypto/tls"
	"crypto/x509"
	"crypto/x509/pkix"
	"encoding/json"
	"encoding/pem"
	"fmt"
	"io"
	"math/big"
	"net"
	"net/http"
	"os"
	"os/exec"
	"path/filepath"
	"strconv"
	"strings"
	"sync/atomic"
	"syscall"
	"time"
)

// Config is the YAML configuration as nested sections (written as JSON, which YAML parsers accept).
type Config map[string]map[string]any

func (c Config) Set(section, key string, v any) Config {
	if c[section] == nil {
		c[section] = map[string]any{}
	}
	c[section][key] = v
	return c
}

func (c Config) Clone() Config {
	n := Config{}
	for s, m := range c {
		n[s] = map[string]any{}
		for k, v := range m {
			n[s][k] = v
		}
	}
	return n
}

type Inst struct {
	Cmd     *exec.Cmd
	Port    int
	Addr    string
	TLS     bool
	Dir     string
	errPath string
	exited  chan struct{}
	ExitErr error
}

var instCtr int64

func Bin() string     { return os.Getenv("VERIF_GWBIN") }
func BinRace() string { return os.Getenv("VERIF_GWBIN_RACE") }
func WorkDir() string {
	d := os.Getenv("VERIF_WORK")
	if d == "" {
		d = os.TempDir()
	}
	return d
}

var portCtr int64

// FreePort picks a port below the ephemeral range (so that client sockets never take it) that is free on
// all interfaces right now; processes start from different offsets to make collisions between shards rare.
func FreePort() int {
	for i := 0; i < 2000; i++ {
		n := atomic.AddInt64(&portCtr, 1)
		p := 10000 + int((int64(os.Getpid())*131+n*7)%22000)
		l, err := net.Listen("tcp", ":"+strconv.Itoa(p))
		if err != nil {
			continue
		}
		l.Close()
		return p
	}
	panic("no free port")
}

type StartOpts struct {
	Bin        string   // default Bin()
	Env        []string // extra environment (RDPGW_… variables)
	NoFile     bool     // do not write a config file (environment only)
	NoWait     bool     // do not wait for the port (startup-refusal tests)
	Wait       time.Duration
	GoMaxProcs int
}

// Start writes the configuration and starts the binary. Server.Port is filled in when absent.
// It returns once the port accepts connections, the process has exited, or the wait expired.
func Start(cfg Config, o StartOpts) (*Inst, error) {
	for try := 0; ; try++ {
		in, auto, err := start1(cfg, o)
		if err != nil || !auto || try >= 5 {
			return in, err
		}
		if ex, _ := in.Exited(); ex && strings.Contains(in.Stderr(), "address already in use") {
			in.Remove()
			continue // somebody else took the port between the probe and the bind
		}
		return in, nil
	}
}

func start1(cfg Config, o StartOpts) (*Inst, bool, error) {
	autoPort := false
	bin := o.Bin
	if bin == "" {
		bin = Bin()
	}
	if bin == "" {
		return nil, false, fmt.Errorf("VERIF_GWBIN not set")
	}
	n := atomic.AddInt64(&instCtr, 1)
	dir := filepath.Join(WorkDir(), fmt.Sprintf("inst-%d-%d", os.Getpid(), n))
	if err := os.MkdirAll(filepath.Join(dir, "tmp"), 0o755); err != nil {
		return nil, false, err
	}
	cfg = cfg.Clone()
	port := 0
	if p, ok := cfg["Server"]["Port"]; ok {
		switch v := p.(type) {
		case int:
			port = v
		case string:
			port, _ = strconv.Atoi(v)
		}
	}
	for _, e := range o.Env {
		if strings.HasPrefix(e, "RDPGW_SERVER__PORT=") {
			port, _ = strconv.Atoi(strings.TrimPrefix(e, "RDPGW_SERVER__PORT="))
		}
	}
	if port == 0 {
		port = FreePort()
		autoPort = true
		cfg.Set("Server", "Port", port)
	}
	cfgPath := filepath.Join(dir, "rdpgw.yaml")
	if !o.NoFile {
		b, _ := json.MarshalIndent(cfg, "", " ")
		if err := os.WriteFile(cfgPath, b, 0o600); err != nil {
			return nil, false, err
		}
	} else {
		cfgPath = filepath.Join(dir, "absent.yaml")
	}
	errPath := filepath.Join(dir, "stderr.txt")
	ef, err := os.Create(errPath)
	if err != nil {
		return nil, false, err
	}
	cmd := exec.Command(bin, "-c", cfgPath)
	cmd.Dir = dir
	cmd.Stdout = ef
	cmd.Stderr = ef
	env := []string{"TMPDIR=" + filepath.Join(dir, "tmp"), "HOME=" + dir, "PATH=/usr/bin:/bin"}
	if o.GoMaxProcs > 0 {
		env = append(env, fmt.Sprintf("GOMAXPROCS=%d", o.GoMaxProcs))
	}
	env = append(env, "GORACE=halt_on_error=0")
	cmd.Env = append(env, o.Env...)
	cmd.SysProcAttr = &syscall.SysProcAttr{Pdeathsig: syscall.SIGKILL}
	if err := cmd.Start(); err != nil {
		ef.Close()
		return nil, false, err
	}
	ef.Close()
	tlsOn := true
	if t, ok := cfg["Server"]["Tls"].(string); ok && t == "disable" {
		tlsOn = false
	}
	for _, e := range o.Env {
		if e == "RDPGW_SERVER__TLS=disable" {
			tlsOn = false
		}
	}
	in := &Inst{Cmd: cmd, Port: port, Addr: net.JoinHostPort("127.0.0.1", strconv.Itoa(port)), TLS: tlsOn, Dir: dir, errPath: errPath, exited: make(chan struct{})}
	go func() { in.ExitErr = cmd.Wait(); close(in.exited) }()
	if o.NoWait {
		return in, autoPort, nil
	}
	wait := o.Wait
	if wait == 0 {
		wait = 10 * time.Second
	}
	deadline := time.Now().Add(wait)
	for time.Now().Before(deadline) {
		select {
		case <-in.exited:
			return in, autoPort, nil
		default:
		}
		c, err := net.DialTimeout("tcp", in.Addr, 200*time.Millisecond)
		if err == nil {
			c.Close()
			// somebody listens on the port - make sure it is our child and not an instance of another test process
			// that picked the same port (our child would then fail to bind a moment later)
			if ownsListener(cmd.Process.Pid, port) {
				return in, autoPort, nil
			}
		}
		time.Sleep(2 * time.Millisecond)
	}
	return in, autoPort, nil
}

// Exited reports whether the process has exited, and its exit code (-1 when killed by a signal).
func (i *Inst) Exited() (bool, int) {
	select {
	case <-i.exited:
		if i.Cmd.ProcessState != nil {
			return true, i.Cmd.ProcessState.ExitCode()
		}
		return true, -1
	default:
		return false, 0
	}
}

func (i *Inst) WaitExit(d time.Duration) (bool, int) {
	select {
	case <-i.exited:
	case <-time.After(d):
	}
	return i.Exited()
}

// Listening reports whether the configured port accepts connections right now.
func (i *Inst) Listening() bool {
	c, err := net.DialTimeout("tcp", i.Addr, 300*time.Millisecond)
	if err != nil {
		return false
	}
	c.Close()
	return true
}

func (i *Inst) Stop() {
	if i == nil || i.Cmd == nil || i.Cmd.Process == nil {
		return
	}
	i.Cmd.Process.Kill()
	<-i.exited
}

// Remove deletes the instance directory.
func (i *Inst) Remove() { os.RemoveAll(i.Dir) }

func (i *Inst) Stderr() string {
	b, _ := os.ReadFile(i.errPath)
	return string(b)
}

var faultMarks = []string{"panic:", "http: panic serving", "fatal error:", "WARNING: DATA RACE", "concurrent map", "concurrent write to websocket"}

// Faults returns the stderr lines that indicate a runtime fault (with some context), or "".
func (i *Inst) Faults() string {
	f, err := os.Open(i.errPath)
	if err != nil {
		return ""
	}
	defer f.Close()
	var out bytes.Buffer
	sc := bufio.NewScanner(f)
	sc.Buffer(make([]byte, 1<<20), 1<<20)
	ctx := 0
	for sc.Scan() {
		ln := sc.Text()
		hit := false
		for _, m := range faultMarks {
			if strings.Contains(ln, m) {
				hit = true
			}
		}
		if hit {
			ctx = 40
		}
		if ctx > 0 {
			out.WriteString(ln + "\n")
			ctx--
			if out.Len() > 12000 {
				break
			}
		}
	}
	return out.String()
}

func (i *Inst) scheme() string {
	if i.TLS {
		return "https"
	}
	return "http"
}

func (i *Inst) URL(path string) string { return i.scheme() + "://" + i.Addr + path }

// Client returns an HTTP client that neither follows redirects nor keeps connections alive.
func Client(jar http.CookieJar) *http.Client {
	return &http.Client{
		Jar:           jar,
		Timeout:       15 * time.Second,
		Transport:     &http.Transport{DisableKeepAlives: true, TLSClientConfig: &tls.Config{InsecureSkipVerify: true}},
		CheckRedirect: func(*http.Request, []*http.Request) error { return http.ErrUseLastResponse },
	}
}

// Metrics reads /metrics and returns the gauges/counters without labels.
func (i *Inst) Metrics() (map[string]float64, error) {
	resp, err := Client(nil).Get(i.URL("/metrics"))
	if err != nil {
		return nil, err
	}
	defer resp.Body.Close()
	if resp.StatusCode != 200 {
		return nil, fmt.Errorf("metrics status %d", resp.StatusCode)
	}
	b, _ := io.ReadAll(resp.Body)
	m := map[string]float64{}
	for _, ln := range strings.Split(string(b), "\n") {
		if ln == "" || ln[0] == '#' {
			continue
		}
		f := strings.Fields(ln)
		if len(f) == 2 {
			v, err := strconv.ParseFloat(f[1], 64)
			if err == nil {
				m[f[0]] = v
			}
		}
	}
	return m, nil
}

// SelfSignedCert writes a run-time generated certificate and key into dir and returns their paths.
func SelfSignedCert(dir string) (certFile, keyFile string, err error) {
	key, err := ecdsa.GenerateKey(elliptic.P256(), rand.Reader)
	if err != nil {
		return "", "", err
	}
	tmpl := &x509.Certificate{SerialNumber: big.NewInt(time.Now().UnixNano()), Subject: pkix.Name{CommonName: "localhost"},
		NotBefore: time.Now().Add(-time.Hour), NotAfter: time.Now().Add(24 * time.Hour),
		KeyUsage: x509.KeyUsageDigitalSignature, ExtKeyUsage: []x509.ExtKeyUsage{x509.ExtKeyUsageServerAuth},
		DNSNames: []string{"localhost"}, IPAddresses: []net.IP{net.ParseIP("127.0.0.1"), net.ParseIP("::1")}}
	der, err := x509.CreateCertificate(rand.Reader, tmpl, tmpl, &key.PublicKey, key)
	if err != nil {
		return "", "", err
	}
	kb, _ := x509.MarshalECPrivateKey(key)
	certFile, keyFile = filepath.Join(dir, "cert.pem"), filepath.Join(dir, "key.pem")
	os.WriteFile(certFile, pem.EncodeToMemory(&pem.Block{Type: "CERTIFICATE", Bytes: der}), 0o600)
	os.WriteFile(keyFile, pem.EncodeToMemory(&pem.Block{Type: "EC PRIVATE KEY", Bytes: kb}), 0o600)
	return certFile, keyFile, nil
}

// ownsListener reports whether process pid holds the listening socket of the given TCP port.
func ownsListener(pid, port int) bool {
	want := fmt.Sprintf(":%04X", port)
	inodes := map[string]bool{}
	for _, fn := range []string{"/proc/net/tcp6", "/proc/net/tcp"} {
		b, err := os.ReadFile(fn)
		if err != nil {
			continue
		}
		for _, ln := range strings.Split(string(b), "\n") {
			f := strings.Fields(ln)
			if len(f) > 9 && strings.HasSuffix(f[1], want) && f[3] == "0A" {
				inodes[f[9]] = true
			}
		}
	}
	if len(inodes) == 0 {
		return false
	}
	fds, err := os.ReadDir(fmt.Sprintf("/proc/%d/fd", pid))
	if err != nil {
		return true // cannot tell: assume ours (as before)
	}
	for _, fd := range fds {
		l, err := os.Readlink(fmt.Sprintf("/proc/%d/fd/%s", pid, fd.Name()))
		if err == nil && strings.HasPrefix(l, "socket:[") && inodes[strings.TrimSuffix(strings.TrimPrefix(l, "socket:["), "]")] {
			return true
		}
	}
	return false
}
