// Package procnet reads /proc/net/tcp{,6} to find out whether the peer (in the same network namespace)
// has consumed everything we sent. It is used only for synchronisation, never as an oracle.
package procnet

import (
	"bufio"
	"encoding/hex"
	"fmt"
	"net"
	"os"
	"strings"
	"syscall"
	"time"
	"unsafe"
)

var ErrNotFound = fmt.Errorf("peer socket not found")

func hexAddr(a *net.TCPAddr) (string, bool) {
	if ip4 := a.IP.To4(); ip4 != nil {
		return fmt.Sprintf("%02X%02X%02X%02X:%04X", ip4[3], ip4[2], ip4[1], ip4[0], a.Port), false
	}
	ip := a.IP.To16()
	var sb strings.Builder
	for w := 0; w < 4; w++ {
		sb.WriteString(strings.ToUpper(hex.EncodeToString([]byte{ip[w*4+3], ip[w*4+2], ip[w*4+1], ip[w*4]})))
	}
	return fmt.Sprintf("%s:%04X", sb.String(), a.Port), true
}

// PeerRxQueue returns the receive-queue length of the peer's socket for connection c.
func PeerRxQueue(c *net.TCPConn) (int, error) {
	la, ok1 := c.LocalAddr().(*net.TCPAddr)
	ra, ok2 := c.RemoteAddr().(*net.TCPAddr)
	if !ok1 || !ok2 {
		return 0, fmt.Errorf("not tcp")
	}
	// peer's view: local = our remote, remote = our local
	if rx, found, err := diagRxQueue(ra, la); err == nil {
		if !found {
			return 0, ErrNotFound
		}
		return rx, nil
	}
	pl, v6 := hexAddr(ra)
	pr, _ := hexAddr(la)
	files := []string{"/proc/net/tcp", "/proc/net/tcp6"}
	if v6 {
		files = []string{"/proc/net/tcp6"}
	}
	for _, fn := range files {
		f, err := os.Open(fn)
		if err != nil {
			continue
		}
		sc := bufio.NewScanner(f)
		sc.Buffer(make([]byte, 1<<20), 1<<20)
		for sc.Scan() {
			fl := strings.Fields(sc.Text())
			if len(fl) < 5 {
				continue
			}
			l, r := fl[1], fl[2]
			if fn == "/proc/net/tcp6" && !v6 {
				// v4-mapped in tcp6: 0000000000000000FFFF0000 + v4
				if len(l) > 33 && strings.HasPrefix(l, "0000000000000000FFFF0000") {
					l = l[24:]
				}
				if len(r) > 33 && strings.HasPrefix(r, "0000000000000000FFFF0000") {
					r = r[24:]
				}
			}
			if l == pl && r == pr {
				if fl[3] != "01" && fl[3] != "08" {
					f.Close()
					return 0, ErrNotFound
				}
				q := strings.Split(fl[4], ":")
				f.Close()
				if len(q) != 2 {
					return 0, fmt.Errorf("bad queue field")
				}
				var rx int
				fmt.Sscanf(q[1], "%X", &rx)
				return rx, nil
			}
		}
		f.Close()
	}
	return 0, ErrNotFound
}

// WaitPeerDrained polls until the peer socket's receive queue is empty. false = could not establish.
func WaitPeerDrained(c *net.TCPConn, d time.Duration) bool {
	deadline := time.Now().Add(d)
	for {
		rx, err := PeerRxQueue(c)
		if err == ErrNotFound {
			return true // the peer socket is gone: it cannot read any more
		}
		// everything we wrote must have been received by the peer's TCP stack (acked) and then consumed by
		// the peer application
		if err == nil && rx == 0 && OutQueue(c) == 0 {
			// re-check the peer queue: data acked between the two probes would be visible now
			rx2, err2 := PeerRxQueue(c)
			if err2 == ErrNotFound || (err2 == nil && rx2 == 0) {
				return true
			}
		}
		if time.Now().After(deadline) {
			return false
		}
		time.Sleep(50 * time.Microsecond)
	}
}

// OutQueue returns the number of bytes we wrote that the peer's TCP stack has not acknowledged yet (SIOCOUTQ).
func OutQueue(c *net.TCPConn) int {
	rc, err := c.SyscallConn()
	if err != nil {
		return -1
	}
	n := int32(-1)
	rc.Control(func(fd uintptr) {
		syscall.Syscall(syscall.SYS_IOCTL, fd, 0x5411, uintptr(unsafe.Pointer(&n)))
	})
	return int(n)
}

// InQueue returns the number of bytes queued for reading on our own socket (FIONREAD); -1 if unknown.
func InQueue(c net.Conn) int {
	tc, ok := c.(*net.TCPConn)
	if !ok {
		return 0
	}
	rc, err := tc.SyscallConn()
	if err != nil {
		return -1
	}
	n := int32(-1)
	rc.Control(func(fd uintptr) {
		syscall.Syscall(syscall.SYS_IOCTL, fd, 0x541B, uintptr(unsafe.Pointer(&n)))
	})
	return int(n)
}
