package procnet

import (
	"encoding/binary"
	"fmt"
	"net"
	"sync"
	"syscall"
)

// Exact-match socket lookup through NETLINK_SOCK_DIAG (much faster than scanning /proc/net/tcp).

var (
	diagMu   sync.Mutex
	diagFd   = -1
	diagDead bool
)

func diagSocket() (int, error) {
	if diagDead {
		return -1, fmt.Errorf("sock_diag unavailable")
	}
	if diagFd >= 0 {
		return diagFd, nil
	}
	fd, err := syscall.Socket(syscall.AF_NETLINK, syscall.SOCK_DGRAM|syscall.SOCK_CLOEXEC, 4 /* NETLINK_SOCK_DIAG */)
	if err != nil {
		diagDead = true
		return -1, err
	}
	if err := syscall.Bind(fd, &syscall.SockaddrNetlink{Family: syscall.AF_NETLINK}); err != nil {
		syscall.Close(fd)
		diagDead = true
		return -1, err
	}
	tv := syscall.Timeval{Sec: 1}
	syscall.SetsockoptTimeval(fd, syscall.SOL_SOCKET, syscall.SO_RCVTIMEO, &tv)
	diagFd = fd
	return fd, nil
}

// diagRxQueue returns the receive queue of the socket whose local end is `local` and remote end `remote`.
// found=false: no such socket.
func diagRxQueue(local, remote *net.TCPAddr) (rx int, found bool, err error) {
	diagMu.Lock()
	defer diagMu.Unlock()
	fd, err := diagSocket()
	if err != nil {
		return 0, false, err
	}
	req := make([]byte, 16+56)
	binary.LittleEndian.PutUint32(req[0:], uint32(len(req)))
	binary.LittleEndian.PutUint16(req[4:], 20) // SOCK_DIAG_BY_FAMILY
	binary.LittleEndian.PutUint16(req[6:], 1)  // NLM_F_REQUEST
	binary.LittleEndian.PutUint32(req[8:], 1)  // seq
	b := req[16:]
	l4, r4 := local.IP.To4(), remote.IP.To4()
	if l4 != nil && r4 != nil {
		b[0] = syscall.AF_INET
		copy(b[12:], l4)
		copy(b[28:], r4)
	} else {
		b[0] = syscall.AF_INET6
		copy(b[12:], local.IP.To16())
		copy(b[28:], remote.IP.To16())
	}
	b[1] = syscall.IPPROTO_TCP
	binary.LittleEndian.PutUint32(b[4:], 0xffffffff) // all states
	binary.BigEndian.PutUint16(b[8:], uint16(local.Port))
	binary.BigEndian.PutUint16(b[10:], uint16(remote.Port))
	binary.LittleEndian.PutUint32(b[48:], 0xffffffff) // INET_DIAG_NOCOOKIE
	binary.LittleEndian.PutUint32(b[52:], 0xffffffff)
	if err := syscall.Sendto(fd, req, 0, &syscall.SockaddrNetlink{Family: syscall.AF_NETLINK}); err != nil {
		return 0, false, err
	}
	buf := make([]byte, 4096)
	n, _, err := syscall.Recvfrom(fd, buf, 0)
	if err != nil {
		return 0, false, err
	}
	if n < 16 {
		return 0, false, fmt.Errorf("short netlink reply")
	}
	typ := binary.LittleEndian.Uint16(buf[4:])
	switch typ {
	case 2: // NLMSG_ERROR
		if n >= 20 {
			e := int32(binary.LittleEndian.Uint32(buf[16:]))
			if e == -int32(syscall.ENOENT) {
				return 0, false, nil
			}
			return 0, false, fmt.Errorf("netlink error %d", e)
		}
		return 0, false, fmt.Errorf("netlink error")
	case 20:
		if n < 16+72 {
			return 0, false, fmt.Errorf("short diag msg")
		}
		m := buf[16:]
		// a socket the application has already closed (FIN_WAIT*, TIME_WAIT, CLOSING, LAST_ACK) reads nothing
		if st := m[1]; st != 1 /* ESTABLISHED */ && st != 8 /* CLOSE_WAIT */ {
			return 0, false, nil
		}
		return int(binary.LittleEndian.Uint32(m[56:])), true, nil
	}
	return 0, false, fmt.Errorf("unexpected netlink type %d", typ)
}
