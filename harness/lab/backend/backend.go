// Package backend provides loopback TCP listeners that play the remote desktop host: they log every
// accept, record every byte received, write what they are told to and observe end-of-stream.
package backend

import (
	"fmt"
	"io"
	"net"
	"sync"
	"time"
)

type Conn struct {
	C      net.Conn
	mu     sync.Mutex
	cond   *sync.Cond
	rx     []byte
	eof    bool
	eofErr error
	At     time.Time
}

func (c *Conn) Received() []byte {
	c.mu.Lock()
	defer c.mu.Unlock()
	return append([]byte(nil), c.rx...)
}
func (c *Conn) wait(d time.Duration, pred func() bool) bool {
	deadline := time.Now().Add(d)
	tm := time.AfterFunc(d, func() { c.mu.Lock(); c.cond.Broadcast(); c.mu.Unlock() })
	defer tm.Stop()
	c.mu.Lock()
	defer c.mu.Unlock()
	for !pred() {
		if !time.Now().Before(deadline) {
			return false
		}
		c.cond.Wait()
	}
	return true
}

// WaitBytes waits until n bytes were received.
func (c *Conn) WaitBytes(n int, d time.Duration) bool {
	return c.wait(d, func() bool { return len(c.rx) >= n || c.eof }) && func() bool { c.mu.Lock(); defer c.mu.Unlock(); return len(c.rx) >= n }()
}

// WaitEOF waits until the gateway closed (or reset) its side.
func (c *Conn) WaitEOF(d time.Duration) bool { return c.wait(d, func() bool { return c.eof }) }
func (c *Conn) EOF() bool                    { c.mu.Lock(); defer c.mu.Unlock(); return c.eof }
func (c *Conn) Write(p []byte) error {
	c.C.SetWriteDeadline(time.Now().Add(10 * time.Second))
	_, err := c.C.Write(p)
	return err
}
func (c *Conn) Close() { c.C.Close() }

type Listener struct {
	L     net.Listener
	Addr  string // host:port as listened on
	mu    sync.Mutex
	cond  *sync.Cond
	conns []*Conn
	done  bool
}

// Listen opens a listener on addr (e.g. "127.0.0.1:0", "[::1]:0", "127.0.0.7:3390").
func Listen(addr string) (*Listener, error) {
	l, err := net.Listen("tcp", addr)
	if err != nil {
		return nil, err
	}
	ls := &Listener{L: l, Addr: l.Addr().String()}
	ls.cond = sync.NewCond(&ls.mu)
	go ls.loop()
	return ls, nil
}

func MustListen(addr string) *Listener {
	var err error
	for i := 0; i < 20; i++ {
		var l *Listener
		l, err = Listen(addr)
		if err == nil {
			return l
		}
		time.Sleep(5 * time.Millisecond)
	}
	panic(fmt.Sprintf("backend: cannot listen on %s: %v", addr, err))
}

func (l *Listener) Port() int { return l.L.Addr().(*net.TCPAddr).Port }

func (l *Listener) loop() {
	for {
		c, err := l.L.Accept()
		if err != nil {
			l.mu.Lock()
			l.done = true
			l.cond.Broadcast()
			l.mu.Unlock()
			return
		}
		bc := &Conn{C: c, At: time.Now()}
		bc.cond = sync.NewCond(&bc.mu)
		l.mu.Lock()
		l.conns = append(l.conns, bc)
		l.cond.Broadcast()
		l.mu.Unlock()
		go func() {
			buf := make([]byte, 65536)
			for {
				n, err := c.Read(buf)
				bc.mu.Lock()
				if n > 0 {
					bc.rx = append(bc.rx, buf[:n]...)
				}
				if err != nil {
					bc.eof = true
					if err != io.EOF {
						bc.eofErr = err
					}
				}
				bc.cond.Broadcast()
				bc.mu.Unlock()
				if err != nil {
					return
				}
			}
		}()
	}
}

// Accepts returns the number of connections accepted so far.
func (l *Listener) Accepts() int { l.mu.Lock(); defer l.mu.Unlock(); return len(l.conns) }

func (l *Listener) Conns() []*Conn {
	l.mu.Lock()
	defer l.mu.Unlock()
	return append([]*Conn(nil), l.conns...)
}

// WaitAccept waits until at least n connections were accepted and returns the n-th.
func (l *Listener) WaitAccept(n int, d time.Duration) *Conn {
	deadline := time.Now().Add(d)
	tm := time.AfterFunc(d, func() { l.mu.Lock(); l.cond.Broadcast(); l.mu.Unlock() })
	defer tm.Stop()
	l.mu.Lock()
	defer l.mu.Unlock()
	for len(l.conns) < n {
		if !time.Now().Before(deadline) {
			return nil
		}
		l.cond.Wait()
	}
	return l.conns[n-1]
}

// Close stops listening and closes every accepted connection.
func (l *Listener) Close() {
	l.L.Close()
	for _, c := range l.Conns() {
		c.C.Close()
	}
}

// ClosedPort returns a loopback port on ip on which nothing listens.
func ClosedPort(ip string) int {
	l, err := net.Listen("tcp", net.JoinHostPort(ip, "0"))
	if err != nil {
		panic(err)
	}
	p := l.Addr().(*net.TCPAddr).Port
	l.Close()
	return p
}
