// Package backend provides loopback TCP listeners that play the remote desktop host: they log every
// accept, record every byte received, write what they are told to and observe end-of-stream.
package backend

import (
	"fmt"
	"syscall"

	"io"
	"net"
	"sync"
	"sync/atomic"
	"time"
	"verif/harness/lab/procnet"
)

type Conn struct {
	C      net.Conn
	mu     sync.Mutex
	cond   *sync.Cond
	rx     []byte
	eof    bool
	eofErr error
	At     time.Time
	paused atomic.Bool
}

// Pause makes the host stop (or resume) reading from the connection: TCP back-pressure builds up towards the gateway.
func (c *Conn) Pause(p bool) { c.paused.Store(p) }

func (c *Conn) Received() []byte {
	c.mu.Lock()
	defer c.mu.Unlock()
	return append([]byte(nil), c.rx...)
}
func (c *Conn) wait(d time.Duration, pred func() bool) bool {
	deadline := time.Now().Add(d)
	tm := time.AfterFunc(d, func() { c.mu.Lock(); c.cond.Broadcast(); c.mu.Unlock() })
	defer tm.Stop()
	c.mu.Lock()
	defer c.mu.Unlock()
	for !pred() {
		if !time.Now().Before(deadline) {
			return false
		}
		c.cond.Wait()
	}
	return true
}

// WaitBytes waits until n bytes were received.
func (c *Conn) WaitBytes(n int, d time.Duration) bool {
	return c.wait(d, func() bool { return len(c.rx) >= n || c.eof }) && func() bool { c.mu.Lock(); defer c.mu.Unlock(); return len(c.rx) >= n }()
}

// WaitEOF waits until the gateway closed (or reset) its side.
func (c *Conn) WaitEOF(d time.Duration) bool { return c.wait(d, func() bool { return c.eof }) }
func (c *Conn) EOF() bool                    { c.mu.Lock(); defer c.mu.Unlock(); return c.eof }
func (c *Conn) Write(p []byte) error {
	c.C.SetWriteDeadline(time.Now().Add(10 * time.Second))
	_, err := c.C.Write(p)
	return err
}
func (c *Conn) Close() { c.C.Close() }

// Flood writes until a write does not complete within d (the peer has stopped draining) or max bytes were
// written. It returns the number of bytes written and whether the stream stalled.
func (c *Conn) Flood(chunk []byte, d time.Duration, max int) (int, bool) {
	total := 0
	for total < max {
		c.C.SetWriteDeadline(time.Now().Add(d))
		n, err := c.C.Write(chunk)
		total += n
		if err != nil {
			if ne, ok := err.(net.Error); ok && ne.Timeout() {
				return total, true
			}
			return total, false
		}
	}
	return total, false
}

type Listener struct {
	L     *net.TCPListener
	Addr  string // host:port as listened on
	mu    sync.Mutex
	conns []*Conn
}

// Listen opens a listener on addr (e.g. "127.0.0.1:0", "[::1]:0", "127.0.0.7:3390").
// There is no background accept loop: the kernel completes handshakes on its own, and the harness pulls
// the accepted connections synchronously whenever it looks at the accept log, so that the log is exact at
// the moment of observation.
func Listen(addr string) (*Listener, error) {
	l, err := net.Listen("tcp", addr)
	if err != nil {
		return nil, err
	}
	return &Listener{L: l.(*net.TCPListener), Addr: l.Addr().String()}, nil
}

func MustListen(addr string) *Listener {
	var err error
	for i := 0; i < 20; i++ {
		var l *Listener
		l, err = Listen(addr)
		if err == nil {
			return l
		}
		time.Sleep(5 * time.Millisecond)
	}
	panic(fmt.Sprintf("backend: cannot listen on %s: %v", addr, err))
}

func (l *Listener) Port() int { return l.L.Addr().(*net.TCPAddr).Port }

// pull accepts every connection that is waiting in the kernel's accept queue.
func (l *Listener) pull() {
	l.mu.Lock()
	defer l.mu.Unlock()
	for {
		l.L.SetDeadline(time.Now().Add(150 * time.Microsecond))
		c, err := l.L.Accept()
		if err != nil {
			return
		}
		bc := &Conn{C: c, At: time.Now()}
		bc.cond = sync.NewCond(&bc.mu)
		l.conns = append(l.conns, bc)
		go func() {
			buf := make([]byte, 65536)
			for {
				for bc.paused.Load() {
					time.Sleep(time.Millisecond)
				}
				n, err := c.Read(buf)
				bc.mu.Lock()
				if n > 0 {
					bc.rx = append(bc.rx, buf[:n]...)
				}
				if err != nil {
					bc.eof = true
					if err != io.EOF {
						bc.eofErr = err
					}
				}
				bc.cond.Broadcast()
				bc.mu.Unlock()
				if err != nil {
					return
				}
			}
		}()
	}
}

// Accepts returns the number of connections accepted so far.
func (l *Listener) Accepts() int { l.pull(); l.mu.Lock(); defer l.mu.Unlock(); return len(l.conns) }

func (l *Listener) Conns() []*Conn {
	l.pull()
	l.mu.Lock()
	defer l.mu.Unlock()
	return append([]*Conn(nil), l.conns...)
}

// WaitAccept waits until at least n connections were accepted and returns the n-th.
func (l *Listener) WaitAccept(n int, d time.Duration) *Conn {
	deadline := time.Now().Add(d)
	for {
		l.pull()
		l.mu.Lock()
		if len(l.conns) >= n {
			c := l.conns[n-1]
			l.mu.Unlock()
			return c
		}
		l.mu.Unlock()
		if time.Now().After(deadline) {
			return nil
		}
		time.Sleep(100 * time.Microsecond)
	}
}

// Close stops listening and closes every accepted connection.
func (l *Listener) Close() {
	for _, c := range l.Conns() {
		c.C.Close()
	}
	l.L.Close()
}

// Settle waits until the connection has been quiet (nothing queued, nothing newly received) for a few polls or hit EOF.
func (c *Conn) Settle() {
	last, quiet := -1, 0
	deadline := time.Now().Add(2 * time.Second)
	for quiet < 3 && time.Now().Before(deadline) {
		c.mu.Lock()
		n, eof := len(c.rx), c.eof
		c.mu.Unlock()
		if eof {
			return
		}
		if procnet.InQueue(c.C) == 0 && n == last {
			quiet++
		} else {
			quiet = 0
		}
		last = n
		time.Sleep(300 * time.Microsecond)
	}
}

// CloseConns closes every accepted connection (keeps listening).
func (l *Listener) CloseConns() {
	for _, c := range l.Conns() {
		c.C.Close()
	}
}

// Reserve binds (without listening) a loopback port so that connections to it are refused and nobody
// else gets it. The returned closer releases it.
func Reserve(ip string) (port int, release func()) {
	fd, err := syscall.Socket(syscall.AF_INET, syscall.SOCK_STREAM, 0)
	if err != nil {
		panic(err)
	}
	var a [4]byte
	copy(a[:], net.ParseIP(ip).To4())
	if err := syscall.Bind(fd, &syscall.SockaddrInet4{Addr: a}); err != nil {
		panic(err)
	}
	sa, _ := syscall.Getsockname(fd)
	return sa.(*syscall.SockaddrInet4).Port, func() { syscall.Close(fd) }
}

// ClosedPort returns a loopback port on ip on which nothing listens.
func ClosedPort(ip string) int {
	l, err := net.Listen("tcp", net.JoinHostPort(ip, "0"))
	if err != nil {
		panic(err)
	}
	p := l.Addr().(*net.TCPAddr).Port
	l.Close()
	return p
}
