// Package idp is a fake OpenID Connect provider: discovery, JWKS, token and userinfo endpoints with
// scripted faults. The harness knows its signing key and every token it issued.
package idp

import (
	"crypto/rand"
	"crypto/rsa"
	"encoding/json"
	"fmt"
	"math/big"
	"net"
	"net/http"
	"net/http/httptest"
	"net/url"
	"strings"
	"sync"
	"time"

	"verif/harness/lab/jwx"
)

// CodeSpec says what the token endpoint does when this authorization code is redeemed.
type CodeSpec struct {
	Fault    string         `json:"fault"` // "", refuse, no_id_token, bad_sig, alg_none, hs256_secret, wrong_iss, wrong_aud, expired, no_username, nonstring_username
	Sub      string         `json:"sub"`
	Username string         `json:"preferred_username"`
	Claim    string         `json:"claim"` // which claim carries the user name (default preferred_username)
	Extra    map[string]any `json:"extra,omitempty"`
}

type issued struct {
	Spec        CodeSpec
	AccessToken string
}

type IdP struct {
	TS           *httptest.Server
	URL          string
	ClientID     string
	ClientSecret string
	key          *rsa.PrivateKey
	otherKey     *rsa.PrivateKey
	kid          string
	mu           sync.Mutex
	codes        map[string]CodeSpec
	tokens       map[string]string // access token -> state: "ok:<sub>", "401", "500", "malformed"
	userinfoLog  []string          // access tokens presented to /userinfo
	tokenLog     []string          // codes presented to /token
	Issued       map[string]issued // code -> what was issued
	ctr          int
	UserinfoURL  string // override advertised in discovery ("" = own)
}

var (
	keyOnce sync.Once
	k1, k2  *rsa.PrivateKey
)

func keys() (*rsa.PrivateKey, *rsa.PrivateKey) {
	keyOnce.Do(func() {
		k1, _ = rsa.GenerateKey(rand.Reader, 2048)
		k2, _ = rsa.GenerateKey(rand.Reader, 2048)
	})
	return k1, k2
}

type Options struct {
	UserinfoURL string // advertise this userinfo endpoint instead of our own (e.g. a closed port)
	ListenIP    string
}

func New(o Options) *IdP {
	a, b := keys()
	p := &IdP{ClientID: "rdpgw-client", ClientSecret: "s3cr3t-of-the-client", key: a, otherKey: b, kid: "k1",
		codes: map[string]CodeSpec{}, tokens: map[string]string{}, Issued: map[string]issued{}, UserinfoURL: o.UserinfoURL}
	mux := http.NewServeMux()
	mux.HandleFunc("/.well-known/openid-configuration", p.discovery)
	mux.HandleFunc("/jwks", p.jwks)
	mux.HandleFunc("/token", p.token)
	mux.HandleFunc("/userinfo", p.userinfo)
	mux.HandleFunc("/auth", func(w http.ResponseWriter, r *http.Request) { w.WriteHeader(200); fmt.Fprint(w, "login page") })
	ts := httptest.NewUnstartedServer(mux)
	ip := o.ListenIP
	if ip == "" {
		ip = "127.0.0.1"
	}
	l, err := net.Listen("tcp", net.JoinHostPort(ip, "0"))
	if err != nil {
		panic(err)
	}
	ts.Listener.Close()
	ts.Listener = l
	ts.Start()
	p.TS = ts
	p.URL = ts.URL
	return p
}

func (p *IdP) Close() { p.TS.Close() }

func (p *IdP) discovery(w http.ResponseWriter, r *http.Request) {
	ui := p.URL + "/userinfo"
	if p.UserinfoURL != "" {
		ui = p.UserinfoURL
	}
	json.NewEncoder(w).Encode(map[string]any{
		"issuer": p.URL, "authorization_endpoint": p.URL + "/auth", "token_endpoint": p.URL + "/token",
		"jwks_uri": p.URL + "/jwks", "userinfo_endpoint": ui,
		"id_token_signing_alg_values_supported": []string{"RS256"},
		"response_types_supported":              []string{"code"}, "subject_types_supported": []string{"public"},
	})
}

func (p *IdP) jwks(w http.ResponseWriter, r *http.Request) {
	pub := p.key.PublicKey
	json.NewEncoder(w).Encode(map[string]any{"keys": []any{map[string]any{
		"kty": "RSA", "alg": "RS256", "use": "sig", "kid": p.kid,
		"n": jwx.B64(pub.N.Bytes()), "e": jwx.B64(big.NewInt(int64(pub.E)).Bytes()),
	}}})
}

// NewCode registers an authorization code.
func (p *IdP) NewCode(spec CodeSpec) string {
	p.mu.Lock()
	defer p.mu.Unlock()
	p.ctr++
	b := make([]byte, 6)
	rand.Read(b)
	code := fmt.Sprintf("code-%d-%x", p.ctr, b)
	p.codes[code] = spec
	return code
}

// NewAccessToken registers an access token in the given state ("ok:<sub>", "401", "500", "malformed").
func (p *IdP) NewAccessToken(state string) string {
	p.mu.Lock()
	defer p.mu.Unlock()
	p.ctr++
	b := make([]byte, 9)
	rand.Read(b)
	t := fmt.Sprintf("at-%d-%x", p.ctr, b)
	p.tokens[t] = state
	return t
}

func (p *IdP) SetAccessToken(tok, state string) {
	p.mu.Lock()
	defer p.mu.Unlock()
	p.tokens[tok] = state
}

func (p *IdP) TokenState(tok string) string {
	p.mu.Lock()
	defer p.mu.Unlock()
	return p.tokens[tok]
}

// UserinfoCount returns how many /userinfo requests carried this access token.
func (p *IdP) UserinfoCount(tok string) int {
	p.mu.Lock()
	defer p.mu.Unlock()
	n := 0
	for _, t := range p.userinfoLog {
		if t == tok {
			n++
		}
	}
	return n
}

func (p *IdP) IssuedFor(code string) (CodeSpec, string, bool) {
	p.mu.Lock()
	defer p.mu.Unlock()
	i, ok := p.Issued[code]
	return i.Spec, i.AccessToken, ok
}

// IDToken mints an ID token according to spec (exported for direct use).
func (p *IdP) IDToken(spec CodeSpec) string {
	now := time.Now()
	claims := map[string]any{"iss": p.URL, "aud": p.ClientID, "sub": spec.Sub,
		"iat": now.Unix(), "exp": now.Add(10 * time.Minute).Unix()}
	claim := spec.Claim
	if claim == "" {
		claim = "preferred_username"
	}
	claims[claim] = spec.Username
	for k, v := range spec.Extra {
		claims[k] = v
	}
	hdr := []byte(fmt.Sprintf(`{"alg":"RS256","kid":"%s"}`, p.kid))
	alg := "RS256"
	var key any = p.key
	switch spec.Fault {
	case "bad_sig":
		key = p.otherKey
	case "alg_none":
		hdr, alg, key = []byte(`{"alg":"none"}`), "none", nil
	case "hs256_secret":
		hdr, alg, key = []byte(`{"alg":"HS256"}`), "HS256", []byte(p.ClientSecret)
	case "wrong_iss":
		claims["iss"] = "https://evil.example"
	case "wrong_aud":
		claims["aud"] = "someone-else"
	case "expired":
		claims["exp"] = now.Add(-10 * time.Minute).Unix()
		claims["iat"] = now.Add(-20 * time.Minute).Unix()
	case "expired_20s":
		claims["exp"] = now.Add(-20 * time.Second).Unix()
		claims["iat"] = now.Add(-10 * time.Minute).Unix()
	case "expired_5s":
		claims["exp"] = now.Add(-5 * time.Second).Unix()
		claims["iat"] = now.Add(-10 * time.Minute).Unix()
	case "no_username":
		delete(claims, claim)
	case "nonstring_username":
		claims[claim] = 12345
	}
	pl, _ := json.Marshal(claims)
	return jwx.SignCompact(hdr, pl, alg, key)
}

func (p *IdP) token(w http.ResponseWriter, r *http.Request) {
	r.ParseForm()
	code := r.Form.Get("code")
	p.mu.Lock()
	p.tokenLog = append(p.tokenLog, code)
	spec, ok := p.codes[code]
	delete(p.codes, code) // single use
	p.mu.Unlock()
	if !ok || spec.Fault == "refuse" {
		w.Header().Set("Content-Type", "application/json")
		w.WriteHeader(400)
		fmt.Fprint(w, `{"error":"invalid_grant"}`)
		return
	}
	at := p.NewAccessToken("ok:" + spec.Sub)
	resp := map[string]any{"access_token": at, "token_type": "Bearer", "expires_in": 3600}
	if spec.Fault != "no_id_token" {
		resp["id_token"] = p.IDToken(spec)
	}
	p.mu.Lock()
	p.Issued[code] = issued{Spec: spec, AccessToken: at}
	p.mu.Unlock()
	w.Header().Set("Content-Type", "application/json")
	json.NewEncoder(w).Encode(resp)
}

func (p *IdP) userinfo(w http.ResponseWriter, r *http.Request) {
	tok := strings.TrimPrefix(r.Header.Get("Authorization"), "Bearer ")
	p.mu.Lock()
	p.userinfoLog = append(p.userinfoLog, tok)
	st, ok := p.tokens[tok]
	p.mu.Unlock()
	if st == "slow-401" { // an identity provider that takes its time, and then says no
		select {
		case <-time.After(7 * time.Second):
		case <-r.Context().Done():
			return
		}
		st = "401"
	}
	switch {
	case !ok || st == "401":
		// the error document real providers send (RFC 6750): a JSON object, without a subject
		w.Header().Set("WWW-Authenticate", `Bearer error="invalid_token"`)
		w.Header().Set("Content-Type", "application/json")
		w.WriteHeader(401)
		fmt.Fprint(w, `{"error":"invalid_token","error_description":"The access token is not active"}`)
	case st == "500":
		w.Header().Set("Content-Type", "application/json")
		w.WriteHeader(500)
		fmt.Fprint(w, `{"error":"server_error"}`)
	case st == "malformed":
		w.Header().Set("Content-Type", "application/json")
		fmt.Fprint(w, `{"sub": `)
	case strings.HasPrefix(st, "ok:"):
		w.Header().Set("Content-Type", "application/json")
		json.NewEncoder(w).Encode(map[string]any{"sub": strings.TrimPrefix(st, "ok:")})
	default:
		w.WriteHeader(401)
	}
}

// StateFromRedirect extracts the state parameter from the Location the gateway redirected the browser to.
func StateFromRedirect(loc string) string {
	u, err := url.Parse(loc)
	if err != nil {
		return ""
	}
	return u.Query().Get("state")
}
