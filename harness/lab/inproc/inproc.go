// Package inproc runs the gateway protocol handler inside the test process behind a real HTTP server,
// wired the way cmd/rdpgw/main.go wires it (EnrichContext -> [auth stand-in] -> HandleGatewayProtocol).
package inproc

import (
	"bytes"
	"log"
	"net"
	"net/http"
	"net/http/httptest"
	"strings"
	"sync"
	"sync/atomic"
	"time"

	"github.com/bolkedebruin/rdpgw/cmd/rdpgw/identity"
	"github.com/bolkedebruin/rdpgw/cmd/rdpgw/protocol"
	"github.com/bolkedebruin/rdpgw/cmd/rdpgw/web"
)

// UserHeader, when present on a request, plays the role of an authentication middleware that
// confirmed this user name (what web.BasicAuthHandler does after the backend said yes).
const UserHeader = "X-Verif-User"

type lockedBuf struct {
	mu sync.Mutex
	b  bytes.Buffer
}

func (l *lockedBuf) Write(p []byte) (int, error) {
	l.mu.Lock()
	defer l.mu.Unlock()
	return l.b.Write(p)
}
func (l *lockedBuf) String() string { l.mu.Lock(); defer l.mu.Unlock(); return l.b.String() }
func (l *lockedBuf) Reset()         { l.mu.Lock(); defer l.mu.Unlock(); l.b.Reset() }

type Server struct {
	TS     *httptest.Server
	Addr   string
	gw     atomic.Pointer[protocol.Gateway]
	active int64
	errlog lockedBuf
	Extra  http.Handler // optional: handler for every path outside the gateway endpoint (runs behind EnrichContext)
}

var storeOnce sync.Once

// InitStore initialises the repo's session store once per process (cookie store, fixed 32-byte keys).
func InitStore() {
	storeOnce.Do(func() {
		web.InitStore([]byte("0123456789abcdef0123456789abcdef"), []byte("fedcba9876543210fedcba9876543210"), "cookie", 0)
	})
}

// Start starts the in-process gateway on 127.0.0.1 (and reachable on all loopback addresses).
func Start() *Server {
	InitStore()
	s := &Server{}
	s.gw.Store(&protocol.Gateway{})
	inner := http.HandlerFunc(func(w http.ResponseWriter, r *http.Request) {
		if u := r.Header.Get(UserHeader); u != "" {
			id := identity.FromRequestCtx(r)
			id.SetUserName(u)
			id.SetAuthenticated(true)
			id.SetAuthTime(time.Now())
			r = identity.AddToRequestCtx(id, r)
		}
		if s.Extra != nil && !strings.HasPrefix(r.URL.Path, "/remoteDesktopGateway/") {
			s.Extra.ServeHTTP(w, r)
			return
		}
		s.gw.Load().HandleGatewayProtocol(w, r)
	})
	chain := web.EnrichContext(inner)
	h := http.HandlerFunc(func(w http.ResponseWriter, r *http.Request) {
		atomic.AddInt64(&s.active, 1)
		defer atomic.AddInt64(&s.active, -1)
		chain.ServeHTTP(w, r)
	})
	ts := httptest.NewUnstartedServer(h)
	l, err := net.Listen("tcp", "[::]:0")
	if err != nil {
		panic(err)
	}
	ts.Listener.Close()
	ts.Listener = l
	ts.Config.ErrorLog = log.New(&s.errlog, "", 0)
	ts.Start()
	s.TS = ts
	_, port, _ := net.SplitHostPort(l.Addr().String())
	s.Addr = net.JoinHostPort("127.0.0.1", port)
	return s
}

// SetGateway installs the gateway configuration used for subsequent requests.
func (s *Server) SetGateway(gw *protocol.Gateway) { s.gw.Store(gw) }

// WaitIdle waits until no handler is running any more.
func (s *Server) WaitIdle(d time.Duration) bool {
	deadline := time.Now().Add(d)
	for atomic.LoadInt64(&s.active) != 0 {
		if time.Now().After(deadline) {
			return false
		}
		time.Sleep(100 * time.Microsecond)
	}
	return true
}

func (s *Server) Active() int { return int(atomic.LoadInt64(&s.active)) }

// TakePanics returns and clears the "http: panic serving" records of the server's error log.
func (s *Server) TakePanics() string {
	t := s.errlog.String()
	s.errlog.Reset()
	if strings.Contains(t, "panic serving") {
		return t
	}
	return ""
}
