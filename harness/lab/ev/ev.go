// Package ev collects per-process coverage statistics of a check and writes them for the driver to merge.
package ev

import (
	"encoding/json"
	"hash/fnv"
	"os"
	"sort"
	"sync"
)

type sample struct {
	H uint64
	J json.RawMessage
}

type Unit struct {
	Evaluations int               `json:"evaluations"`
	Classes     map[string]int    `json:"classes"`
	NTHashes    []uint64          `json:"nt_hashes"`
	Samples     []json.RawMessage `json:"samples"`
	Excluded    map[string]int    `json:"excluded_known"`
	Notes       map[string]int    `json:"notes"`
	nt          map[uint64]struct{}
	samples     []sample
}

var (
	mu    sync.Mutex
	units = map[string]*Unit{}
)

func unit(name string) *Unit {
	u := units[name]
	if u == nil {
		u = &Unit{Classes: map[string]int{}, Excluded: map[string]int{}, Notes: map[string]int{}, nt: map[uint64]struct{}{}}
		units[name] = u
	}
	return u
}

func Hash(b []byte) uint64 { h := fnv.New64a(); h.Write(b); return h.Sum64() }

const maxSamples = 4

// Record counts one evaluated case. caseJSON is its canonical JSON (used for distinctness and samples).
func Record(name string, caseJSON []byte, nontrivial bool, classes ...string) {
	mu.Lock()
	defer mu.Unlock()
	u := unit(name)
	u.Evaluations++
	for _, c := range classes {
		u.Classes[c]++
	}
	if nontrivial {
		h := Hash(caseJSON)
		if _, ok := u.nt[h]; !ok {
			u.nt[h] = struct{}{}
			// keep the samples with the smallest hashes: a deterministic, RNG-free reservoir
			if len(caseJSON) < 6000 {
				u.samples = append(u.samples, sample{h, append(json.RawMessage(nil), caseJSON...)})
				sort.Slice(u.samples, func(i, j int) bool { return u.samples[i].H < u.samples[j].H })
				if len(u.samples) > maxSamples {
					u.samples = u.samples[:maxSamples]
				}
			}
		}
	}
}

// CountOnly counts evaluations without a case body (sub-steps).
func Note(name, key string, n int) {
	mu.Lock()
	defer mu.Unlock()
	unit(name).Notes[key] += n
}

func Excluded(name, key string) {
	mu.Lock()
	defer mu.Unlock()
	unit(name).Excluded[key]++
}

// Flush writes the statistics to the file named by VERIF_STATS (if set).
func Flush() {
	path := os.Getenv("VERIF_STATS")
	if path == "" {
		return
	}
	mu.Lock()
	defer mu.Unlock()
	out := map[string]*Unit{}
	for k, u := range units {
		u.NTHashes = u.NTHashes[:0]
		for h := range u.nt {
			u.NTHashes = append(u.NTHashes, h)
		}
		sort.Slice(u.NTHashes, func(i, j int) bool { return u.NTHashes[i] < u.NTHashes[j] })
		u.Samples = nil
		for _, s := range u.samples {
			u.Samples = append(u.Samples, s.J)
		}
		out[k] = u
	}
	b, _ := json.Marshal(out)
	os.WriteFile(path, b, 0o644)
}
