// Package kdc provides fake Kerberos KDCs on loopback (TCP and UDP on the same port) with scripted behaviour
// and a transcript of what they received, plus DER helpers for KDC-PROXY-MESSAGE.
package kdc

import (
	"fmt"
	"io"
	"net"
	"sync"
	"syscall"
	"time"
)

// Behaviours (TCP side): reply | reply-keep-open | partial | oversized | close | silent | refuse
// The UDP side is silent unless UDPReply is set.
type KDC struct {
	Port      int
	ReplyFor  func(request []byte) []byte // UDP: when set, the reply (without length prefix) is computed from the request datagram
	Behaviour string
	Reply     []byte
	UDPReply  bool
	tcp       net.Listener
	udp       *net.UDPConn
	mu        sync.Mutex
	tcpRx     [][]byte // bytes received per TCP connection
	udpRx     [][]byte // datagrams
	conns     []net.Conn
	closed    bool
	reservedFd int
}

// Start opens a KDC on a fresh loopback port. Behaviour "refuse" reserves nothing: the port is closed.
func Start(behaviour string, reply []byte, udpReply bool) (*KDC, error) {
	k := &KDC{Behaviour: behaviour, Reply: reply, UDPReply: udpReply, reservedFd: -1}
	for try := 0; try < 50; try++ {
		l, err := net.Listen("tcp", "127.0.0.1:0")
		if err != nil {
			return nil, err
		}
		port := l.Addr().(*net.TCPAddr).Port
		u, err := net.ListenUDP("udp", &net.UDPAddr{IP: net.IPv4(127, 0, 0, 1), Port: port})
		if err != nil {
			l.Close()
			continue
		}
		k.Port = port
		if behaviour == "refuse" {
			// connections must be refused, but the port has to stay ours: another process could otherwise bind it
			// and receive what the proxy sends. A TCP socket that is bound but not listening refuses connections.
			l.Close()
			fd, err := syscall.Socket(syscall.AF_INET, syscall.SOCK_STREAM, 0)
			if err == nil {
				if syscall.Bind(fd, &syscall.SockaddrInet4{Port: port, Addr: [4]byte{127, 0, 0, 1}}) != nil {
					syscall.Close(fd)
					u.Close()
					continue
				}
				k.reservedFd = fd
			}
			k.udp = u // bound, never read: silent
			return k, nil
		}
		k.tcp, k.udp = l, u
		go k.serveTCP()
		go k.serveUDP()
		return k, nil
	}
	return nil, fmt.Errorf("no port pair")
}

func (k *KDC) Addr() string { return fmt.Sprintf("127.0.0.1:%d", k.Port) }

func (k *KDC) serveTCP() {
	for {
		c, err := k.tcp.Accept()
		if err != nil {
			return
		}
		k.mu.Lock()
		idx := len(k.tcpRx)
		k.tcpRx = append(k.tcpRx, nil)
		k.conns = append(k.conns, c)
		k.mu.Unlock()
		go func() {
			defer func() {
				if k.Behaviour != "silent" && k.Behaviour != "reply-keep-open" {
					c.Close()
				}
			}()
			if k.Behaviour == "close" {
				return
			}
			// read the request: 4-byte big-endian length + message (tolerate anything)
			buf := make([]byte, 0, 4096)
			tmp := make([]byte, 65536)
			want := -1
			c.SetReadDeadline(time.Now().Add(8 * time.Second))
			for {
				n, err := c.Read(tmp)
				buf = append(buf, tmp[:n]...)
				k.mu.Lock()
				k.tcpRx[idx] = append([]byte(nil), buf...)
				k.mu.Unlock()
				if want < 0 && len(buf) >= 4 {
					want = 4 + int(uint32(buf[0])<<24|uint32(buf[1])<<16|uint32(buf[2])<<8|uint32(buf[3]))
				}
				if (want >= 0 && len(buf) >= want) || err != nil || (k.Behaviour == "reply-at-once" && len(buf) > 0) {
					break
				}
			}
			switch k.Behaviour {
			case "reply", "reply-keep-open", "reply-at-once":
				c.Write(k.Reply)
				if k.Behaviour == "reply-keep-open" {
					io.Copy(io.Discard, c) // until the proxy closes
					c.Close()
				}
			case "wrap-prefix": // a length prefix just below 2^32 (4+n wraps around in 32 bits), connection kept open
				c.Write([]byte{0xff, 0xff, 0xff, 0xfe, 0x6b})
				io.Copy(io.Discard, c)
			case "oversized": // announces a reply far beyond any Kerberos message and keeps the connection open
				c.Write([]byte{0x00, 0x02, 0x00, 0x01, 0x6b, 0x81})
				io.Copy(io.Discard, c)
			case "partial":
				if len(k.Reply) > 1 {
					c.Write(k.Reply[:len(k.Reply)/2])
				}
			case "silent":
				io.Copy(io.Discard, c)
				c.Close()
			}
		}()
	}
}

func (k *KDC) serveUDP() {
	buf := make([]byte, 65536)
	for {
		n, addr, err := k.udp.ReadFromUDP(buf)
		if err != nil {
			return
		}
		k.mu.Lock()
		k.udpRx = append(k.udpRx, append([]byte(nil), buf[:n]...))
		k.mu.Unlock()
		if k.ReplyFor != nil {
			if rep := k.ReplyFor(buf[:n]); rep != nil {
				k.udp.WriteToUDP(rep, addr)
			}
		} else if k.UDPReply && len(k.Reply) >= 4 {
			k.udp.WriteToUDP(k.Reply[4:], addr)
		}
	}
}

// TCPReceived returns what each TCP connection received.
func (k *KDC) TCPReceived() [][]byte {
	k.mu.Lock()
	defer k.mu.Unlock()
	out := make([][]byte, len(k.tcpRx))
	for i, b := range k.tcpRx {
		out[i] = append([]byte(nil), b...)
	}
	return out
}

func (k *KDC) UDPReceived() [][]byte {
	k.mu.Lock()
	defer k.mu.Unlock()
	return append([][]byte(nil), k.udpRx...)
}

func (k *KDC) Contacts() int {
	k.mu.Lock()
	defer k.mu.Unlock()
	return len(k.tcpRx) + len(k.udpRx)
}

func (k *KDC) Close() {
	k.mu.Lock()
	defer k.mu.Unlock()
	if k.closed {
		return
	}
	k.closed = true
	if k.tcp != nil {
		k.tcp.Close()
	}
	if k.udp != nil {
		k.udp.Close()
	}
	if k.reservedFd >= 0 {
		syscall.Close(k.reservedFd)
	}
	for _, c := range k.conns {
		c.Close()
	}
}
