package kdc

// Minimal DER helpers for KDC-PROXY-MESSAGE ([MS-KKDCP] 2.2.2), written independently of the repository:
//   KDC-PROXY-MESSAGE ::= SEQUENCE { kerb-message [0] OCTET STRING, target-domain [1] KERB-REALM OPTIONAL,
//                                    dclocator-hint [2] INTEGER OPTIONAL }   -- EXPLICIT tags, KERB-REALM = GeneralString

func derLen(n int) []byte {
	switch {
	case n < 0x80:
		return []byte{byte(n)}
	case n < 0x100:
		return []byte{0x81, byte(n)}
	case n < 0x10000:
		return []byte{0x82, byte(n >> 8), byte(n)}
	default:
		return []byte{0x83, byte(n >> 16), byte(n >> 8), byte(n)}
	}
}

func tlv(tag byte, v []byte) []byte { return append(append([]byte{tag}, derLen(len(v))...), v...) }

// EncodeProxyMessage builds the DER of a KDC-PROXY-MESSAGE. realm == "" omits target-domain.
// implicitRealm encodes [1] as an IMPLICIT primitive string (not what the specification says).
func EncodeProxyMessage(msg []byte, realm string, implicitRealm bool) []byte {
	body := tlv(0xA0, tlv(0x04, msg))
	if realm != "" {
		if implicitRealm {
			body = append(body, tlv(0x81, []byte(realm))...)
		} else {
			body = append(body, tlv(0xA1, tlv(0x1B, []byte(realm)))...)
		}
	}
	return tlv(0x30, body)
}

// DecodeProxyMessage strictly parses a KDC-PROXY-MESSAGE that carries only kerb-message and returns it.
func DecodeProxyMessage(b []byte) (msg []byte, ok bool) {
	rd := func(b []byte) (tag byte, val, rest []byte, ok bool) {
		if len(b) < 2 {
			return
		}
		tag = b[0]
		l := int(b[1])
		off := 2
		if l >= 0x80 {
			n := l & 0x7f
			if n == 0 || n > 3 || len(b) < 2+n {
				return
			}
			l = 0
			for i := 0; i < n; i++ {
				l = l<<8 | int(b[2+i])
			}
			off = 2 + n
		}
		if len(b) < off+l {
			return
		}
		return tag, b[off : off+l], b[off+l:], true
	}
	tag, seq, rest, k := rd(b)
	if !k || tag != 0x30 || len(rest) != 0 {
		return nil, false
	}
	tag, f0, rest, k := rd(seq)
	if !k || tag != 0xA0 || len(rest) != 0 {
		return nil, false
	}
	tag, oct, rest, k := rd(f0)
	if !k || tag != 0x04 || len(rest) != 0 {
		return nil, false
	}
	return oct, true
}
