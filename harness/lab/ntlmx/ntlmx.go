// Package ntlmx is the harness's independent NTLMv2 implementation (MS-NLMP): message builders for
// NEGOTIATE and AUTHENTICATE, a CHALLENGE parser, NTOWFv2 and the NTLMv2 proof. It shares no code with the
// go-ntlm library the repository uses.
package ntlmx

import (
	"crypto/hmac"
	"crypto/md5"
	"encoding/binary"
	"errors"
	"strings"
	"unicode/utf16"

	"golang.org/x/crypto/md4"
)

const sig = "NTLMSSP\x00"

func utf16le(s string) []byte {
	u := utf16.Encode([]rune(s))
	b := make([]byte, 2*len(u))
	for i, c := range u {
		binary.LittleEndian.PutUint16(b[2*i:], c)
	}
	return b
}

func hmacMD5(key, data []byte) []byte {
	m := hmac.New(md5.New, key)
	m.Write(data)
	return m.Sum(nil)
}

// NTOWFv2 = HMAC_MD5(MD4(UNICODE(password)), UNICODE(Uppercase(user) + domain))
func NTOWFv2(password, user, domain string) []byte {
	h := md4.New()
	h.Write(utf16le(password))
	return hmacMD5(h.Sum(nil), utf16le(strings.ToUpper(user)+domain))
}

// Negotiate builds a type-1 message.
func Negotiate() []byte {
	b := make([]byte, 40)
	copy(b, sig)
	binary.LittleEndian.PutUint32(b[8:], 1)
	// UNICODE | OEM | REQUEST_TARGET | NTLM | ALWAYS_SIGN | EXTENDED_SESSIONSECURITY | VERSION | 128 | 56
	binary.LittleEndian.PutUint32(b[12:], 0x00000001|0x00000002|0x00000004|0x00000200|0x00008000|0x00080000|0x02000000|0x20000000|0x80000000)
	// domain and workstation fields: empty, offset 40
	binary.LittleEndian.PutUint32(b[20:], 40)
	binary.LittleEndian.PutUint32(b[28:], 40)
	// version 6.1.7601, revision 15
	b[32], b[33] = 6, 1
	binary.LittleEndian.PutUint16(b[34:], 7601)
	b[39] = 15
	return b
}

type Challenge struct {
	ServerChallenge []byte
	TargetInfo      []byte
	Flags           uint32
}

// ParseChallenge reads a type-2 message.
func ParseChallenge(b []byte) (*Challenge, error) {
	if len(b) < 48 || string(b[:8]) != sig || binary.LittleEndian.Uint32(b[8:]) != 2 {
		return nil, errors.New("not a challenge message")
	}
	c := &Challenge{ServerChallenge: append([]byte(nil), b[24:32]...), Flags: binary.LittleEndian.Uint32(b[20:])}
	l := int(binary.LittleEndian.Uint16(b[40:]))
	off := int(binary.LittleEndian.Uint32(b[44:]))
	if off+l > len(b) {
		return nil, errors.New("target info outside the message")
	}
	c.TargetInfo = append([]byte(nil), b[off:off+l]...)
	return c, nil
}

// Blob is the NTLMv2 client challenge structure ("temp").
func Blob(timestamp, clientChallenge, targetInfo []byte) []byte {
	t := []byte{1, 1, 0, 0, 0, 0, 0, 0}
	t = append(t, timestamp...)
	t = append(t, clientChallenge...)
	t = append(t, 0, 0, 0, 0)
	t = append(t, targetInfo...)
	t = append(t, 0, 0, 0, 0)
	return t
}

// Proof = HMAC_MD5(ResponseKeyNT, ServerChallenge || blob)
func Proof(key, serverChallenge, blob []byte) []byte {
	return hmacMD5(key, append(append([]byte(nil), serverChallenge...), blob...))
}

type AuthSpec struct {
	User, Domain, Workstation string
	Key                       []byte // ResponseKeyNT used for the proof
	ServerChallenge           []byte
	TargetInfo                []byte
	Timestamp                 []byte // 8 bytes
	ClientChallenge           []byte // 8 bytes
	FlagsSet, FlagsClear      uint32 // negotiate flags switched on / off relative to the default set
	Layout                    string // "" = version and MIC present; "noversion" = NEGOTIATE_VERSION clear, version bytes zero; "short" = neither version nor MIC in the header (payload at 64); "nomic" = version but no MIC (payload at 72)
}

// Authenticate builds a type-3 message; it also returns the blob and the proof it carries.
func Authenticate(a AuthSpec) (msg, blob, proof []byte) {
	blob = Blob(a.Timestamp, a.ClientChallenge, a.TargetInfo)
	proof = Proof(a.Key, a.ServerChallenge, blob)
	nt := append(append([]byte(nil), proof...), blob...)
	lm := append(hmacMD5(a.Key, append(append([]byte(nil), a.ServerChallenge...), a.ClientChallenge...)), a.ClientChallenge...)
	dom, usr, ws := utf16le(a.Domain), utf16le(a.User), utf16le(a.Workstation)
	hdr := 88
	switch a.Layout {
	case "v1": // the oldest form: no session key, no flags, no version - the payload follows the workstation field
		hdr = 52
	case "short":
		hdr = 64
	case "nomic":
		hdr = 72
	}
	b := make([]byte, hdr)
	copy(b, sig)
	binary.LittleEndian.PutUint32(b[8:], 3)
	off := hdr
	field := func(at int, p []byte) {
		binary.LittleEndian.PutUint16(b[at:], uint16(len(p)))
		binary.LittleEndian.PutUint16(b[at+2:], uint16(len(p)))
		binary.LittleEndian.PutUint32(b[at+4:], uint32(off))
		off += len(p)
	}
	field(28, dom)
	field(36, usr)
	field(44, ws)
	field(12, lm)
	field(20, nt)
	if a.Layout == "v1" {
		b = append(b, dom...)
		b = append(b, usr...)
		b = append(b, ws...)
		b = append(b, lm...)
		b = append(b, nt...)
		return b, blob, proof
	}
	field(52, nil) // no encrypted session key
	flags := uint32(0x00000001 | 0x00000200 | 0x00008000 | 0x00080000 | 0x02000000 | 0x20000000 | 0x80000000)
	if a.Layout == "noversion" || a.Layout == "short" {
		flags &^= 0x02000000
	}
	flags = (flags | a.FlagsSet) &^ a.FlagsClear
	binary.LittleEndian.PutUint32(b[60:], flags)
	if a.Layout == "" || a.Layout == "nomic" {
		b[64], b[65] = 6, 1
		binary.LittleEndian.PutUint16(b[66:], 7601)
		b[71] = 15
	}
	// MIC (72..88) left zero
	b = append(b, dom...)
	b = append(b, usr...)
	b = append(b, ws...)
	b = append(b, lm...)
	b = append(b, nt...)
	return b, blob, proof
}
