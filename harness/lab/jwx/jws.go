// Package jwx is the harness's independent implementation of the JOSE pieces the gateway uses:
// compact JWS with HS256 (mint + verify) and compact JWE dir/A128CBC-HS256 with optional DEFLATE
// (mint + decrypt). Only the Go standard library is used.
package jwx

import (
	"crypto"
	"crypto/hmac"
	"crypto/rand"
	"crypto/rsa"
	"crypto/sha256"
	"crypto/sha512"
	"encoding/base64"
	"encoding/json"
	"errors"
	"hash"
	"strings"
)

func B64(b []byte) string { return base64.RawURLEncoding.EncodeToString(b) }

// B64Dec decodes base64url leniently with respect to trailing bits but strictly with respect to alphabet
// and padding (what "the same three byte strings" means for the UNSPECIFIED class).
func B64Dec(s string) ([]byte, error) {
	return base64.RawURLEncoding.DecodeString(s)
}

// B64DecLoose additionally tolerates non-zero trailing bits (non-canonical encodings).
func B64DecLoose(s string) ([]byte, error) {
	return base64.RawURLEncoding.WithPadding(base64.NoPadding).DecodeString(s)
}

func hmacOf(alg string, key, msg []byte) []byte {
	var h func() hash.Hash
	switch alg {
	case "HS256":
		h = sha256.New
	case "HS384":
		h = sha512.New384
	case "HS512":
		h = sha512.New
	default:
		return nil
	}
	m := hmac.New(h, key)
	m.Write(msg)
	return m.Sum(nil)
}

// SignCompact builds header.payload.signature with the given header JSON (raw) and payload bytes.
// alg: HS256/HS384/HS512 (key = []byte), RS256 (key = *rsa.PrivateKey), none (empty signature).
func SignCompact(headerJSON []byte, payload []byte, alg string, key any) string {
	si := B64(headerJSON) + "." + B64(payload)
	var sig []byte
	switch alg {
	case "HS256", "HS384", "HS512":
		sig = hmacOf(alg, key.([]byte), []byte(si))
	case "RS256":
		d := sha256.Sum256([]byte(si))
		sig, _ = rsa.SignPKCS1v15(rand.Reader, key.(*rsa.PrivateKey), crypto.SHA256, d[:])
	case "none":
		sig = nil
	}
	return si + "." + B64(sig)
}

// MintHS256 mints a compact JWS {"alg":"HS256"} over the claims.
func MintHS256(claims map[string]any, key []byte) string {
	p, _ := json.Marshal(claims)
	return SignCompact([]byte(`{"alg":"HS256"}`), p, "HS256", key)
}

type JWSInfo struct {
	Header    map[string]any
	Claims    map[string]any
	MACOK     bool // HS256 MAC over the received seg0.seg1 verifies under key
	MACCanon  bool // HS256 MAC over the canonical re-encoding of the decoded header and payload verifies
	Alg       string
	Canonical bool // every segment is canonical base64url (re-encoding gives the same text)
}

// InspectJWS parses a compact JWS and verifies an HS256 MAC under key. An error means "not a compact JWS
// with JSON header and JSON claims".
func InspectJWS(tok string, key []byte) (JWSInfo, error) {
	var info JWSInfo
	segs := strings.Split(tok, ".")
	if len(segs) != 3 {
		return info, errors.New("not three segments")
	}
	var dec [3][]byte
	info.Canonical = true
	for i, s := range segs {
		b, err := B64Dec(s)
		if err != nil {
			return info, errors.New("segment not base64url")
		}
		if B64(b) != s {
			info.Canonical = false
		}
		dec[i] = b
	}
	if err := json.Unmarshal(dec[0], &info.Header); err != nil || info.Header == nil {
		return info, errors.New("header not a JSON object")
	}
	info.Alg, _ = info.Header["alg"].(string)
	if err := json.Unmarshal(dec[1], &info.Claims); err != nil || info.Claims == nil {
		return info, errors.New("claims not a JSON object")
	}
	want := hmacOf("HS256", key, []byte(segs[0]+"."+segs[1]))
	info.MACOK = info.Alg == "HS256" && hmac.Equal(want, dec[2])
	wantCanon := hmacOf("HS256", key, []byte(B64(dec[0])+"."+B64(dec[1])))
	info.MACCanon = info.Alg == "HS256" && hmac.Equal(wantCanon, dec[2])
	return info, nil
}
