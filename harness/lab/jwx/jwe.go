package jwx

import (
	"bytes"
	"compress/flate"
	"crypto/aes"
	"crypto/cipher"
	"crypto/hmac"
	"crypto/rand"
	"crypto/sha256"
	"encoding/binary"
	"encoding/json"
	"errors"
	"io"
	"strings"
)

// A128CBC-HS256 with "dir": the 32-byte key is MAC key (first 16) || ENC key (last 16).

func cbcHS256Tag(macKey, aad, iv, ct []byte) []byte {
	m := hmac.New(sha256.New, macKey)
	m.Write(aad)
	m.Write(iv)
	m.Write(ct)
	var al [8]byte
	binary.BigEndian.PutUint64(al[:], uint64(len(aad))*8)
	m.Write(al[:])
	return m.Sum(nil)[:16]
}

// EncryptDir builds a compact JWE with the given protected header JSON.
func EncryptDir(headerJSON []byte, plaintext []byte, key []byte, deflate bool) (string, error) {
	if len(key) != 32 {
		return "", errors.New("need 32-byte key")
	}
	if deflate {
		var b bytes.Buffer
		w, _ := flate.NewWriter(&b, flate.DefaultCompression)
		w.Write(plaintext)
		w.Close()
		plaintext = b.Bytes()
	}
	blk, _ := aes.NewCipher(key[16:])
	pad := 16 - len(plaintext)%16
	pt := append(append([]byte{}, plaintext...), bytes.Repeat([]byte{byte(pad)}, pad)...)
	iv := make([]byte, 16)
	rand.Read(iv)
	ct := make([]byte, len(pt))
	cipher.NewCBCEncrypter(blk, iv).CryptBlocks(ct, pt)
	ph := B64(headerJSON)
	tag := cbcHS256Tag(key[:16], []byte(ph), iv, ct)
	return ph + ".." + B64(iv) + "." + B64(ct) + "." + B64(tag), nil
}

type JWEInfo struct {
	Header    map[string]any
	Plaintext []byte
	Canonical bool
	EncKeySeg string
}

// DecryptDir is the reference decryption of a compact dir/A128CBC-HS256 JWE.
func DecryptDir(tok string, key []byte) (JWEInfo, error) {
	var info JWEInfo
	segs := strings.Split(tok, ".")
	if len(segs) != 5 {
		return info, errors.New("not five segments")
	}
	info.EncKeySeg = segs[1]
	info.Canonical = true
	var dec [5][]byte
	for i, s := range segs {
		b, err := B64Dec(s)
		if err != nil {
			return info, errors.New("segment not base64url")
		}
		if B64(b) != s {
			info.Canonical = false
		}
		dec[i] = b
	}
	if err := json.Unmarshal(dec[0], &info.Header); err != nil || info.Header == nil {
		return info, errors.New("header not JSON")
	}
	if a, _ := info.Header["alg"].(string); a != "dir" {
		return info, errors.New("alg not dir")
	}
	if e, _ := info.Header["enc"].(string); e != "A128CBC-HS256" {
		return info, errors.New("enc not A128CBC-HS256")
	}
	if len(key) != 32 {
		return info, errors.New("bad key length")
	}
	iv, ct, tag := dec[2], dec[3], dec[4]
	if len(iv) != 16 || len(ct) == 0 || len(ct)%16 != 0 {
		return info, errors.New("bad iv/ciphertext")
	}
	if !hmac.Equal(cbcHS256Tag(key[:16], []byte(segs[0]), iv, ct), tag) {
		// a non-canonical spelling of the protected header decodes to the bytes of a properly authenticated
		// token; libraries that re-encode the decoded header accept it. Reported through Canonical = false.
		if info.Canonical || !hmac.Equal(cbcHS256Tag(key[:16], []byte(B64(dec[0])), iv, ct), tag) {
			return info, errors.New("tag mismatch")
		}
	}
	blk, _ := aes.NewCipher(key[16:])
	pt := make([]byte, len(ct))
	cipher.NewCBCDecrypter(blk, iv).CryptBlocks(pt, ct)
	pad := int(pt[len(pt)-1])
	if pad < 1 || pad > 16 || pad > len(pt) {
		return info, errors.New("bad padding")
	}
	for _, c := range pt[len(pt)-pad:] {
		if int(c) != pad {
			return info, errors.New("bad padding")
		}
	}
	pt = pt[:len(pt)-pad]
	if z, _ := info.Header["zip"].(string); z == "DEF" {
		out, err := io.ReadAll(flate.NewReader(bytes.NewReader(pt)))
		if err != nil {
			return info, errors.New("inflate failed")
		}
		pt = out
	} else if _, has := info.Header["zip"]; has {
		return info, errors.New("unknown zip")
	}
	info.Plaintext = pt
	return info, nil
}
