// Package tsgu is an independent MS-TSGU (HTTP transport) codec used by the harness:
// encoders for client packets with malformation knobs and a strict decoder for server packets.
// It deliberately shares no code with the repository under test.
package tsgu

import (
	"encoding/binary"
	"fmt"
	"unicode/utf16"
)

const (
	PktHandshakeRequest     = 0x1
	PktHandshakeResponse    = 0x2
	PktExtendedAuth         = 0x3
	PktTunnelCreate         = 0x4
	PktTunnelResponse       = 0x5
	PktTunnelAuth           = 0x6
	PktTunnelAuthResponse   = 0x7
	PktChannelCreate        = 0x8
	PktChannelResponse      = 0x9
	PktData                 = 0xA
	PktServiceMessage       = 0xB
	PktReauth               = 0xC
	PktKeepalive            = 0xD
	PktCloseChannel         = 0x10
	PktCloseChannelResponse = 0x11
)

const (
	StatusOK                     = 0
	ErrCapabilityMismatch        = 0x800759E9
	ErrCookieDenied              = 0x800759F8
	ErrRAPDenied                 = 0x800759DA
	ErrInternal                  = 0x800759D8
	ErrAccessDenied              = 0x5
	RedirEnableAll        uint32 = 0x80000000
	RedirDisableAll       uint32 = 0x40000000
	RedirDisableDrive     uint32 = 0x1
	RedirDisablePrint     uint32 = 0x2
	RedirDisablePort      uint32 = 0x4
	RedirDisableClip      uint32 = 0x8
	RedirDisablePnp       uint32 = 0x10
)

// Header builds an 8-byte packet header.
func Header(pt uint16, length uint32) []byte {
	b := make([]byte, 8)
	binary.LittleEndian.PutUint16(b[0:], pt)
	binary.LittleEndian.PutUint32(b[4:], length)
	return b
}

// Packet wraps a body with a correct header.
func Packet(pt uint16, body []byte) []byte {
	return append(Header(pt, uint32(len(body)+8)), body...)
}

// PacketLen wraps a body with a header carrying an arbitrary length field.
func PacketLen(pt uint16, body []byte, length uint32) []byte {
	return append(Header(pt, length), body...)
}

// UTF16 encodes s (must be valid) as UTF-16LE, optionally NUL-terminated.
func UTF16(s string, nul bool) []byte {
	u := utf16.Encode([]rune(s))
	if nul {
		u = append(u, 0)
	}
	return UTF16Raw(u)
}

func UTF16Raw(u []uint16) []byte {
	b := make([]byte, 2*len(u))
	for i, c := range u {
		binary.LittleEndian.PutUint16(b[2*i:], c)
	}
	return b
}

func Handshake(major, minor byte, version uint16, extAuth uint16) []byte {
	b := make([]byte, 6)
	b[0], b[1] = major, minor
	binary.LittleEndian.PutUint16(b[2:], version)
	binary.LittleEndian.PutUint16(b[4:], extAuth)
	return Packet(PktHandshakeRequest, b)
}

// TunnelCreateRaw: caps, fieldsPresent, reserved, then if cookie != nil: cbLen + bytes. cbLenOverride<0 => real length.
func TunnelCreateRaw(caps uint32, fields uint16, cookie []byte, cbLenOverride int) []byte {
	b := make([]byte, 8)
	binary.LittleEndian.PutUint32(b[0:], caps)
	binary.LittleEndian.PutUint16(b[4:], fields)
	if cookie != nil || cbLenOverride >= 0 {
		l := len(cookie)
		if cbLenOverride >= 0 {
			l = cbLenOverride
		}
		lb := make([]byte, 2)
		binary.LittleEndian.PutUint16(lb, uint16(l))
		b = append(b, lb...)
		b = append(b, cookie...)
	}
	return Packet(PktTunnelCreate, b)
}

// TunnelCreate with a PAA cookie string (NUL-terminated UTF-16), or without cookie when cookie == "" and !withField.
func TunnelCreate(cookie string, withField bool) []byte {
	if !withField {
		return TunnelCreateRaw(0x3f, 0, nil, -1)
	}
	return TunnelCreateRaw(0x3f, 1, UTF16(cookie, true), -1)
}

func TunnelAuthRaw(name []byte, cbOverride int) []byte {
	l := len(name)
	if cbOverride >= 0 {
		l = cbOverride
	}
	b := make([]byte, 2)
	binary.LittleEndian.PutUint16(b, uint16(l))
	b = append(b, name...)
	return Packet(PktTunnelAuth, b)
}

func TunnelAuth(clientName string) []byte { return TunnelAuthRaw(UTF16(clientName, true), -1) }

// ChannelCreateRaw: numResources, numAlt, port, protocol, cbName, name bytes.
func ChannelCreateRaw(nres, nalt byte, port uint16, proto uint16, name []byte, cbOverride int) []byte {
	b := make([]byte, 8)
	b[0], b[1] = nres, nalt
	binary.LittleEndian.PutUint16(b[2:], port)
	binary.LittleEndian.PutUint16(b[4:], proto)
	l := len(name)
	if cbOverride >= 0 {
		l = cbOverride
	}
	binary.LittleEndian.PutUint16(b[6:], uint16(l))
	b = append(b, name...)
	return Packet(PktChannelCreate, b)
}

func ChannelCreate(server string, port uint16) []byte {
	return ChannelCreateRaw(1, 0, port, 3, UTF16(server, true), -1)
}

// DataRaw: cblen field (override or real) + payload.
func DataRaw(payload []byte, cbOverride int) []byte {
	l := len(payload)
	if cbOverride >= 0 {
		l = cbOverride
	}
	b := make([]byte, 2, 2+len(payload))
	binary.LittleEndian.PutUint16(b, uint16(l))
	b = append(b, payload...)
	return Packet(PktData, b)
}

func Data(payload []byte) []byte { return DataRaw(payload, -1) }
func Keepalive() []byte          { return Packet(PktKeepalive, nil) }
func CloseChannel() []byte {
	b := make([]byte, 4)
	return Packet(PktCloseChannel, b)
}

// ---------------------------------------------------------------------------------------------
// Decoder for server packets.

type Resp struct {
	Type   uint16
	Len    uint32
	Status uint32 // error code where the packet has one
	// handshake response
	Major, Minor  byte
	ServerVersion uint16
	ExtAuth       uint16
	// tunnel response
	FieldsPresent uint16
	TunnelID      uint32
	CapsFlags     uint32
	// tunnel auth response
	RedirFlags  uint32
	IdleTimeout uint32
	// channel response
	ChannelID uint32
	UDPPort   uint16
	// data
	Payload []byte
	Raw     []byte
}

func (r Resp) String() string {
	switch r.Type {
	case PktData:
		return fmt.Sprintf("DATA(%d)", len(r.Payload))
	default:
		return fmt.Sprintf("T%x{st=%08x}", r.Type, r.Status)
	}
}

// SplitStream cuts a byte stream of server packets into packets using the header length field.
// It returns the packets and the undecodable remainder (nil when the stream is an exact sequence).
func SplitStream(b []byte) (pkts [][]byte, rest []byte) {
	for len(b) > 0 {
		if len(b) < 8 {
			return pkts, b
		}
		l := binary.LittleEndian.Uint32(b[4:])
		if l < 8 || int(l) > len(b) {
			return pkts, b
		}
		pkts = append(pkts, b[:l])
		b = b[l:]
	}
	return pkts, nil
}

// Decode strictly parses one server packet: header length must equal len(b); the body must contain
// exactly the fixed part plus the optional fields announced by fieldsPresent.
func Decode(b []byte) (Resp, error) {
	var r Resp
	r.Raw = b
	if len(b) < 8 {
		return r, fmt.Errorf("short packet (%d bytes)", len(b))
	}
	r.Type = binary.LittleEndian.Uint16(b[0:])
	if rsv := binary.LittleEndian.Uint16(b[2:]); rsv != 0 {
		return r, fmt.Errorf("type %#x: reserved header field %#x != 0", r.Type, rsv)
	}
	r.Len = binary.LittleEndian.Uint32(b[4:])
	if int(r.Len) != len(b) {
		return r, fmt.Errorf("type %#x: header length %d != bytes sent %d", r.Type, r.Len, len(b))
	}
	body := b[8:]
	need := func(n int) error {
		if len(body) < n {
			return fmt.Errorf("type %#x: body too short: want %d more bytes, have %d", r.Type, n, len(body))
		}
		return nil
	}
	u16 := func() uint16 { v := binary.LittleEndian.Uint16(body); body = body[2:]; return v }
	u32 := func() uint32 { v := binary.LittleEndian.Uint32(body); body = body[4:]; return v }
	switch r.Type {
	case PktHandshakeResponse:
		if err := need(10); err != nil {
			return r, err
		}
		r.Status = u32()
		r.Major, r.Minor = body[0], body[1]
		body = body[2:]
		r.ServerVersion = u16()
		r.ExtAuth = u16()
	case PktTunnelResponse:
		if err := need(10); err != nil {
			return r, err
		}
		r.ServerVersion = u16()
		r.Status = u32()
		r.FieldsPresent = u16()
		_ = u16()
		if r.FieldsPresent&^0x17 != 0 {
			return r, fmt.Errorf("tunnel response: unknown fieldsPresent bits %#x", r.FieldsPresent)
		}
		if r.FieldsPresent&0x1 != 0 {
			if err := need(4); err != nil {
				return r, err
			}
			r.TunnelID = u32()
		}
		if r.FieldsPresent&0x2 != 0 {
			if err := need(4); err != nil {
				return r, err
			}
			r.CapsFlags = u32()
		}
		if r.FieldsPresent&0x4 != 0 {
			// nonce (16) + cert: cbLen + bytes
			if err := need(18); err != nil {
				return r, err
			}
			body = body[16:]
			l := int(u16())
			if err := need(l); err != nil {
				return r, err
			}
			body = body[l:]
		}
		if r.FieldsPresent&0x10 != 0 {
			if err := need(2); err != nil {
				return r, err
			}
			l := int(u16())
			if err := need(l); err != nil {
				return r, err
			}
			body = body[l:]
		}
	case PktTunnelAuthResponse:
		if err := need(8); err != nil {
			return r, err
		}
		r.Status = u32()
		r.FieldsPresent = u16()
		_ = u16()
		if r.FieldsPresent&^0x7 != 0 {
			return r, fmt.Errorf("tunnel auth response: unknown fieldsPresent bits %#x", r.FieldsPresent)
		}
		if r.FieldsPresent&0x1 != 0 {
			if err := need(4); err != nil {
				return r, err
			}
			r.RedirFlags = u32()
		}
		if r.FieldsPresent&0x2 != 0 {
			if err := need(4); err != nil {
				return r, err
			}
			r.IdleTimeout = u32()
		}
		if r.FieldsPresent&0x4 != 0 {
			if err := need(2); err != nil {
				return r, err
			}
			l := int(u16())
			if err := need(l); err != nil {
				return r, err
			}
			body = body[l:]
		}
	case PktChannelResponse, PktCloseChannelResponse:
		if r.Type == PktCloseChannelResponse && len(body) == 4 {
			// bare status form of HTTP_CLOSE_PACKET (accepted, see DESIGN 3.1)
			r.Status = u32()
			break
		}
		if err := need(8); err != nil {
			return r, err
		}
		r.Status = u32()
		r.FieldsPresent = u16()
		_ = u16()
		if r.FieldsPresent&^0x7 != 0 {
			return r, fmt.Errorf("channel response: unknown fieldsPresent bits %#x", r.FieldsPresent)
		}
		if r.FieldsPresent&0x1 != 0 {
			if err := need(4); err != nil {
				return r, err
			}
			r.ChannelID = u32()
		}
		if r.FieldsPresent&0x4 != 0 {
			if err := need(2); err != nil {
				return r, err
			}
			r.UDPPort = u16()
		}
		if r.FieldsPresent&0x2 != 0 {
			if err := need(2); err != nil {
				return r, err
			}
			l := int(u16())
			if err := need(l); err != nil {
				return r, err
			}
			body = body[l:]
		}
	case PktData:
		if err := need(2); err != nil {
			return r, err
		}
		l := int(u16())
		if l != len(body) {
			return r, fmt.Errorf("data packet: cblen %d != payload carried %d", l, len(body))
		}
		r.Payload = body
		body = nil
	case PktKeepalive:
		// no body
	default:
		return r, fmt.Errorf("unexpected server packet type %#x", r.Type)
	}
	if len(body) != 0 {
		return r, fmt.Errorf("type %#x: %d bytes beyond the fields announced (fieldsPresent=%#x)", r.Type, len(body), r.FieldsPresent)
	}
	return r, nil
}

// ResponseTypeFor maps a request type to the response type that answers it (0 if none).
func ResponseTypeFor(req uint16) uint16 {
	switch req {
	case PktHandshakeRequest:
		return PktHandshakeResponse
	case PktTunnelCreate:
		return PktTunnelResponse
	case PktTunnelAuth:
		return PktTunnelAuthResponse
	case PktChannelCreate:
		return PktChannelResponse
	case PktCloseChannel:
		return PktCloseChannelResponse
	}
	return 0
}
