// Package authsvc is a fake rdpgw-auth: a gRPC Authenticate server on a unix socket with scripted verdicts
// and a log of everything it was asked and answered. Optionally NTLM requests are delegated to the
// repository's real NTLM verifier.
package authsvc

import (
	"time"
	"sync/atomic"
	"context"
	"encoding/base64"
	"fmt"
	"net"
	"os"
	"strings"
	"sync"

	"google.golang.org/grpc"

	"github.com/bolkedebruin/rdpgw/shared/auth"
)

type Entry struct {
	Kind     string // basic | ntlm
	User     string
	Password string
	Session  string
	Message  string
	OK       bool
	Username string // as answered
}

type Service struct {
	auth.UnimplementedAuthenticateServer
	Socket string
	srv    *grpc.Server
	mu     sync.Mutex
	Users  map[string]string // user -> password for basic
	log    []Entry
	// RequireChallenge: "ok:<user>" is only confirmed after a "neg" in the same session
	RequireChallenge bool
	// NTLMDelegate, when set, handles NTLM requests (e.g. the repo's real verifier)
	NTLMDelegate func(*auth.NtlmRequest) (*auth.NtlmResponse, error)
	// BasicDelay: how long a basic verdict takes (a directory or PAM stack is not instantaneous)
	BasicDelay atomic.Int64 // nanoseconds
}

// Start listens on a fresh unix socket inside dir.
func Start(dir string, users map[string]string) (*Service, error) {
	sock := fmt.Sprintf("%s/auth-%d.sock", dir, os.Getpid())
	for i := 0; ; i++ {
		if _, err := os.Stat(sock); err != nil {
			break
		}
		sock = fmt.Sprintf("%s/auth-%d-%d.sock", dir, os.Getpid(), i)
	}
	l, err := net.Listen("unix", sock)
	if err != nil {
		return nil, err
	}
	s := &Service{Socket: sock, srv: grpc.NewServer(), Users: users}
	auth.RegisterAuthenticateServer(s.srv, s)
	go s.srv.Serve(l)
	return s, nil
}

func (s *Service) Stop() { s.srv.Stop(); os.Remove(s.Socket) }

func (s *Service) Authenticate(ctx context.Context, m *auth.UserPass) (*auth.AuthResponse, error) {
	if d := s.BasicDelay.Load(); d > 0 {
		time.Sleep(time.Duration(d))
	}
	s.mu.Lock()
	defer s.mu.Unlock()
	pw, ok := s.Users[m.Username]
	good := ok && pw != "" && pw == m.Password
	s.log = append(s.log, Entry{Kind: "basic", User: m.Username, Password: m.Password, OK: good, Username: m.Username})
	return &auth.AuthResponse{Authenticated: good}, nil
}

// Scripted NTLM (when no delegate): the message is base64 of
//
//	"neg"            -> answer with challenge "chal"
//	"ok:<user>"      -> authenticated as <user> if the session has an outstanding challenge
//	anything else    -> not authenticated
func (s *Service) NTLM(ctx context.Context, m *auth.NtlmRequest) (*auth.NtlmResponse, error) {
	if s.NTLMDelegate != nil {
		r, err := s.NTLMDelegate(m)
		s.mu.Lock()
		e := Entry{Kind: "ntlm", Session: m.Session, Message: m.NtlmMessage}
		if r != nil {
			e.OK, e.Username = r.Authenticated, r.Username
		}
		s.log = append(s.log, e)
		s.mu.Unlock()
		return r, err
	}
	s.mu.Lock()
	defer s.mu.Unlock()
	r := &auth.NtlmResponse{}
	raw, err := base64.StdEncoding.DecodeString(m.NtlmMessage)
	e := Entry{Kind: "ntlm", Session: m.Session, Message: m.NtlmMessage}
	if err == nil {
		msg := string(raw)
		switch {
		case msg == "neg":
			s.pending(m.Session, true)
			r.NtlmMessage = base64.StdEncoding.EncodeToString([]byte("chal"))
		case strings.HasPrefix(msg, "ok:") && (s.pending(m.Session, false) || !s.RequireChallenge):
			r.Authenticated, r.Username = true, strings.TrimPrefix(msg, "ok:")
		}
	}
	e.OK, e.Username = r.Authenticated, r.Username
	s.log = append(s.log, e)
	return r, nil
}

var pend = map[string]bool{}

func (s *Service) pending(session string, set bool) bool {
	if set {
		pend[s.Socket+session] = true
		return true
	}
	ok := pend[s.Socket+session]
	delete(pend, s.Socket+session)
	return ok
}

func (s *Service) Log() []Entry {
	s.mu.Lock()
	defer s.mu.Unlock()
	return append([]Entry(nil), s.log...)
}

func (s *Service) LogLen() int { s.mu.Lock(); defer s.mu.Unlock(); return len(s.log) }

// B64 is a helper for scripted NTLM messages.
func B64(s string) string { return base64.StdEncoding.EncodeToString([]byte(s)) }
