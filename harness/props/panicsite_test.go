package props

import (
	"regexp"
	"strings"
)

var frameRe = regexp.MustCompile(`github\.com/bolkedebruin/rdpgw/[^\s(]+(\([^)]*\))?[.\w]*`)

// panicSite extracts the top-most frame inside the repository from a panic trace.
func panicSite(trace string) string {
	for _, ln := range strings.Split(trace, "\n") {
		ln = strings.TrimSpace(ln)
		if strings.HasPrefix(ln, "github.com/bolkedebruin/rdpgw/") {
			if i := strings.LastIndex(ln, "("); i > 0 {
				ln = ln[:i]
			}
			return strings.TrimPrefix(ln, "github.com/bolkedebruin/rdpgw/")
		}
	}
	return "unknown"
}
