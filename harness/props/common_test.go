package props

import (
	"encoding/json"
	"io"
	"log"
	"fmt"
	"os"
	"path/filepath"
	"strings"
	"sync"
	"testing"

	"pgregory.net/rapid"

	"verif/harness/lab/ev"
)

// Violation describes a failed oracle. Sig is a stable signature (oracle class + defining feature of the
// input) used to match known findings; Msg is for humans.
type Violation struct {
	Sig string `json:"sig"`
	Msg string `json:"msg"`
}

func viol(sig, format string, a ...any) *Violation {
	return &Violation{Sig: sig, Msg: fmt.Sprintf(format, a...)}
}

func TestMain(m *testing.M) {
	if os.Getenv("VERIF_GWLOG") == "" {
		log.SetOutput(io.Discard) // the repository logs every packet through the std logger
	}
	code := m.Run()
	ev.Flush()
	os.Exit(code)
}

type knownFinding struct {
	Property string `json:"property"`
	Key      string `json:"key"`
	Status   string `json:"status"`
	Sig      string `json:"sig"`
	What     string `json:"what"`
	Probe    string `json:"probe"`
	Commit   string `json:"commit"`
}

var (
	kfOnce sync.Once
	kfOpen map[string]bool // signature -> open
)

func verifDir() string {
	if d := os.Getenv("VERIF_DIR"); d != "" {
		return d
	}
	return "/verif"
}

func openFinding(sig string) bool {
	kfOnce.Do(func() {
		kfOpen = map[string]bool{}
		b, err := os.ReadFile(filepath.Join(verifDir(), "known_findings.json"))
		if err != nil {
			return
		}
		var f struct {
			Findings []knownFinding `json:"findings"`
		}
		if json.Unmarshal(b, &f) != nil {
			return
		}
		for _, k := range f.Findings {
			if k.Status == "open" {
				kfOpen[k.Sig] = true
			}
		}
	})
	return kfOpen[sig]
}

// replayPath: where this process stores the (last, hence minimal) failing case of unit `name`.
func replayPath(name string) string {
	dir := os.Getenv("VERIF_REPLAY_DIR")
	if dir == "" {
		dir = filepath.Join(verifDir(), "replays", "adhoc")
	}
	os.MkdirAll(dir, 0o755)
	shard := os.Getenv("VERIF_SHARD")
	if shard == "" {
		shard = "0"
	}
	return filepath.Join(dir, fmt.Sprintf("%s-s%s.json", name, shard))
}

type replayFile struct {
	Unit      string          `json:"unit"`
	Violation *Violation      `json:"violation"`
	Case      json.RawMessage `json:"case"`
}

// runProp is the common shape of every property: generate a case with rapid, run it against the oracle,
// record statistics, save a replay file on failure. With VERIF_REPLAY set the generator is bypassed and the
// saved case is executed directly.
//   - classify returns (nontrivial, classes)
//   - run returns nil or a violation. A violation whose signature is an open known finding is counted
//     as excluded and not reported (the driver runs the pinned probe of each open finding separately).
func runProp[C any](t *testing.T, name string, gen func(*rapid.T) C, classify func(C) (bool, []string), run func(C) *Violation) {
	if rp := os.Getenv("VERIF_REPLAY"); rp != "" {
		b, err := os.ReadFile(rp)
		if err != nil {
			t.Fatalf("cannot read replay %s: %v", rp, err)
		}
		var rf replayFile
		if err := json.Unmarshal(b, &rf); err != nil {
			t.Fatalf("bad replay file: %v", err)
		}
		if rf.Unit != name {
			t.Skipf("replay is for unit %s", rf.Unit)
		}
		var c C
		if err := json.Unmarshal(rf.Case, &c); err != nil {
			t.Fatalf("bad replay case: %v", err)
		}
		v := run(c)
		if v != nil {
			fmt.Printf("REPLAY-VIOLATION unit=%s sig=%s msg=%s\n", name, v.Sig, oneLine(v.Msg))
			t.Fatalf("replay reproduces: [%s] %s", v.Sig, v.Msg)
		}
		fmt.Printf("REPLAY-PASS unit=%s\n", name)
		return
	}
	rapid.Check(t, func(rt *rapid.T) {
		c := gen(rt)
		cj, _ := json.Marshal(c)
		nt, classes := classify(c)
		ev.Record(name, cj, nt, classes...)
		if os.Getenv("VERIF_JOURNAL") != "" {
			os.WriteFile(replayPath(name)+".journal", cj, 0o644)
		}
		v := run(c)
		if v == nil {
			return
		}
		if openFinding(v.Sig) {
			ev.Excluded(name, v.Sig)
			return
		}
		rf, _ := json.MarshalIndent(replayFile{Unit: name, Violation: v, Case: cj}, "", " ")
		p := replayPath(name)
		os.WriteFile(p, rf, 0o644)
		fmt.Printf("FAILCASE unit=%s replay=%s sig=%s\n", name, p, v.Sig)
		rt.Fatalf("[%s] %s", v.Sig, v.Msg)
	})
}

func oneLine(s string) string {
	s = strings.ReplaceAll(s, "\n", " | ")
	if len(s) > 400 {
		s = s[:400] + "…"
	}
	return s
}
