package props

import (
	"sync"
	"bufio"
	"bytes"
	"encoding/binary"
	"fmt"
	"io"
	"net"
	"net/http"
	"net/http/httptest"
	"os"
	"path/filepath"
	"strings"
	"testing"
	"time"

	"github.com/bolkedebruin/rdpgw/cmd/rdpgw/kdcproxy"
	"pgregory.net/rapid"

	"verif/harness/lab/kdc"
)

// C20 — the KDC proxy relays Kerberos messages faithfully and always answers.

type c20KDC struct {
	Behaviour string `json:"behaviour"` // reply | reply-keep-open | partial | close | silent | refuse
	UDPReply  bool   `json:"udp_reply,omitempty"`
}

type c20Case struct {
	Realms    [][]c20KDC `json:"realms"` // realm 0 is the default realm
	Realm     string     `json:"request_realm"` // absent | r0 | r1 | unknown
	PayloadN  int        `json:"payload_len"`
	Seed      byte       `json:"seed"`
	Malformed string     `json:"malformed"` // "" | method | chunked | too-long | bad-der | trailing | truncated-der
	PrefixLie int64      `json:"length_prefix_minus_payload_length,omitempty"` // the four-byte prefix inside kerb-message announces that much more (or less) than follows it
	NoPrefix  bool       `json:"no_length_prefix"` // kerb-message shorter than 4 bytes / without a meaningful prefix
}

const answerBound = 12 * time.Second // KDC timeout (5 s) + margin

func genC20(t *rapid.T) c20Case {
	var c c20Case
	nr := rapid.IntRange(1, 2).Draw(t, "nrealms")
	slow := 0
	for r := 0; r < nr; r++ {
		var ks []c20KDC
		for i, n := 0, rapid.IntRange(1, 3).Draw(t, "nkdcs"); i < n; i++ {
			b := rapid.SampledFrom([]string{"reply", "reply", "reply", "reply-keep-open", "partial", "oversized", "wrap-prefix", "close", "silent", "refuse"}).Draw(t, "behaviour")
			if (b == "silent" || b == "partial") && slow >= 1 {
				b = "close" // keep the number of 5-second waits per case small
			}
			if b == "silent" {
				slow++
			}
			ks = append(ks, c20KDC{Behaviour: b, UDPReply: rapid.IntRange(0, 7).Draw(t, "udpReply") == 0})
		}
		c.Realms = append(c.Realms, ks)
	}
	c.Realm = rapid.SampledFrom([]string{"absent", "r0", "r0", "r1", "unknown"}).Draw(t, "realm")
	if c.Realm == "r1" && nr < 2 {
		c.Realm = "r0"
	}
	c.PayloadN = rapid.SampledFrom([]int{0, 1, 3, 4, 5, 100, 1400, 4096, 65536, 130000, -1, -2}).Draw(t, "payload")
	if rapid.Bool().Draw(t, "anyLen") {
		c.PayloadN = rapid.IntRange(0, 3000).Draw(t, "payloadAny")
	}
	c.Seed = rapid.Byte().Draw(t, "seed")
	if c.PayloadN >= 4 && rapid.IntRange(0, 7).Draw(t, "prefixLie") == 0 {
		c.PrefixLie = rapid.SampledFrom([]int64{1, 100, 70000, -1, -4, 0xFFFFFFFC - int64(c.PayloadN)}).Draw(t, "lie")
	}
	if rapid.IntRange(0, 3).Draw(t, "malformed") == 0 {
		c.Malformed = rapid.SampledFrom([]string{"method", "chunked", "too-long", "bad-der", "trailing", "truncated-der"}).Draw(t, "malKind")
	}
	return c
}

func realmName(i int) string { return []string{"EXAMPLE.COM", "OTHER.TEST"}[i] }

func runC20(c c20Case, dir string) *Violation {
	// fake KDCs and krb5.conf
	var all [][]*kdc.KDC
	var conf strings.Builder
	conf.WriteString("[libdefaults]\n default_realm = EXAMPLE.COM\n dns_lookup_kdc = false\n dns_lookup_realm = false\n[realms]\n")
	replyOf := map[*kdc.KDC][]byte{}
	for r, ks := range c.Realms {
		fmt.Fprintf(&conf, " %s = {\n", realmName(r))
		var row []*kdc.KDC
		for i, k := range ks {
			rep := streamBytes(byte(17*r+i+1), 0, 20+int(c.Seed)%400+7*i)
			rep = append(binary.BigEndian.AppendUint32(nil, uint32(len(rep))), rep...)
			kk, err := kdc.Start(k.Behaviour, rep, k.UDPReply)
			if err != nil {
				return viol("infra", "cannot start fake KDC: %v", err)
			}
			defer kk.Close()
			replyOf[kk] = rep
			row = append(row, kk)
			fmt.Fprintf(&conf, "  kdc = %s\n", kk.Addr())
		}
		conf.WriteString(" }\n")
		all = append(all, row)
	}
	cf := filepath.Join(dir, fmt.Sprintf("krb5-%d.conf", time.Now().UnixNano()))
	os.WriteFile(cf, []byte(conf.String()), 0o600)
	defer os.Remove(cf)
	proxy := kdcproxy.InitKdcProxy(cf)
	var errlog lockedWriter
	ts := httptest.NewUnstartedServer(http.HandlerFunc(proxy.Handler))
	ts.Config.ErrorLog = newLogger(&errlog)
	ts.Start()
	defer closeBounded(ts)
	// request
	pn := c.PayloadN
	if pn < 0 { // -1: the request body is exactly 128 KiB; -2: one byte more
		pn = 131072 - 40
		for len(kdc.EncodeProxyMessage(make([]byte, pn+4), map[string]string{"r0": realmName(0), "r1": realmName(1), "unknown": "NOWHERE.INVALID"}[c.Realm], false)) < 131072-c.PayloadN-1 {
			pn++
		}
	}
	if (c.Malformed == "method" || c.Malformed == "chunked") && pn > 2000 {
		pn = 2000 // refused before the body is read: a client still writing a large body would only see a reset
	}
	payload := streamBytes(c.Seed, 0, pn)
	msg := append(binary.BigEndian.AppendUint32(nil, uint32(int64(len(payload))+c.PrefixLie)), payload...)
	if pn < 4 && c.Seed%2 == 0 {
		msg = payload // a kerb-message shorter than a length prefix
	}
	realm := ""
	targetRealm := 0
	switch c.Realm {
	case "r0":
		realm = realmName(0)
	case "r1":
		realm, targetRealm = realmName(1), 1
	case "unknown":
		realm, targetRealm = "NOWHERE.INVALID", -1
	}
	body := kdc.EncodeProxyMessage(msg, realm, false)
	method := "POST"
	var req *http.Request
	switch c.Malformed {
	case "method":
		method = "PUT"
	case "too-long":
		body = kdc.EncodeProxyMessage(streamBytes(1, 0, 131072+200), realm, false)
	case "bad-der":
		body = append([]byte{0x31}, body[1:]...)
	case "trailing":
		body = append(body, 0x00, 0x01)
	case "truncated-der":
		if len(body) > 3 {
			body = body[:len(body)-2]
		}
	}
	if c.Malformed == "chunked" {
		req, _ = http.NewRequest(method, ts.URL+"/KdcProxy", io.NopCloser(bytes.NewReader(body)))
		req.ContentLength = -1
	} else {
		req, _ = http.NewRequest(method, ts.URL+"/KdcProxy", bytes.NewReader(body))
	}
	req.Header.Set("Content-Type", "application/kerberos")
	cl := &http.Client{Timeout: answerBound, Transport: &http.Transport{DisableKeepAlives: true}}
	t0 := time.Now()
	var resp *http.Response
	var err error
	if len(body) > 131072 && c.Malformed != "chunked" {
		// announce the length and send only the beginning: the answer must not depend on the rest, and a
		// client still writing 128 KiB into a connection the server already closed would only see a reset
		resp, err = rawPost(ts.Listener.Addr().String(), method, len(body), body[:1000])
	} else {
		resp, err = cl.Do(req)
	}
	took := time.Since(t0)
	desc := fmt.Sprintf("realms %+v, request realm %s, payload %d bytes, malformed %q", c.Realms, c.Realm, c.PayloadN, c.Malformed)
	if p := errlog.String(); strings.Contains(p, "panic serving") {
		return viol("c20/panic/"+panicSite(p), "the proxy handler panicked (%s):\n%s", desc, tail(p, 1500))
	}
	if err != nil {
		return viol("c20/no-answer", "no HTTP response within %v (%s): %v", answerBound, desc, err)
	}
	defer resp.Body.Close()
	rb, _ := io.ReadAll(resp.Body)
	contacted := func() int {
		n := 0
		for _, row := range all {
			for _, k := range row {
				n += k.Contacts()
			}
		}
		return n
	}
	if c.Malformed != "method" && c.Malformed != "chunked" && len(body) > 131072 {
		if resp.StatusCode != 413 || contacted() != 0 {
			return viol("c20/over-limit", "a %d-byte request exceeds 128 KiB: want 413 and nothing forwarded, got %d (%s)", len(body), resp.StatusCode, desc)
		}
		return nil
	}
	if c.Malformed != "" {
		want := map[string]int{"method": 405, "chunked": 411, "too-long": 413, "bad-der": 400, "trailing": 400, "truncated-der": 400}[c.Malformed]
		if resp.StatusCode != want {
			return viol("c20/malformed-status/"+c.Malformed, "malformed request answered %d, want %d (%s)", resp.StatusCode, want, desc)
		}
		if n := contacted(); n != 0 {
			return viol("c20/malformed-forwarded/"+c.Malformed, "a rejected request still reached a KDC (%d contacts) (%s)", n, desc)
		}
		return nil
	}
	// well-formed
	if targetRealm < 0 {
		if resp.StatusCode == 200 {
			return viol("c20/unknown-realm-answered", "request for an unknown realm answered 200 (%s)", desc)
		}
		if n := contacted(); n != 0 {
			return viol("c20/unknown-realm-forwarded", "request for an unknown realm was sent to a KDC (%s)", desc)
		}
		return nil
	}
	// nothing may go to KDCs of another realm
	for r, row := range all {
		if r == targetRealm {
			continue
		}
		for _, k := range row {
			if k.Contacts() != 0 {
				return viol("c20/wrong-realm", "request for realm %s was sent to a KDC of realm %s (%s)", realmName(targetRealm), realmName(r), desc)
			}
		}
	}
	replying := false
	for i, k := range c.Realms[targetRealm] {
		if k.Behaviour == "reply" || k.Behaviour == "reply-keep-open" {
			replying = true
		}
		_ = i
	}
	if c.PrefixLie != 0 {
		return nil // the prefix does not describe what follows it: not a well-formed Kerberos message, only "answers, no panic" is required
	}
	if len(msg) < 4 {
		return nil // a kerb-message without room for its length prefix is not a well-formed Kerberos message: only "answers, no panic" is required
	}
	if resp.StatusCode == 200 {
		got, ok := kdc.DecodeProxyMessage(rb)
		if !ok {
			return viol("c20/reply-not-wrapped", "200 whose body is not a DER KDC-PROXY-MESSAGE carrying only kerb-message: %x (%s)", trunc64b(rb), desc)
		}
		matched := false
		udpOnly := false
		for i, k := range all[targetRealm] {
			if !bytes.Equal(got, replyOf[k]) {
				continue
			}
			kb := c.Realms[targetRealm][i]
			if kb.Behaviour == "reply" || kb.Behaviour == "reply-keep-open" || kb.UDPReply {
				// that KDC must have received exactly the embedded message: as it is on TCP, without its
				// four-byte length prefix in one datagram on UDP (RFC 4120 7.2)
				for _, rx := range k.TCPReceived() {
					if bytes.Equal(rx, msg) && (kb.Behaviour == "reply" || kb.Behaviour == "reply-keep-open") {
						matched = true
					}
				}
				for _, rx := range k.UDPReceived() {
					if kb.UDPReply && (bytes.Equal(rx, msg[4:]) || bytes.Equal(rx, msg)) {
						matched = true
					}
				}
				if !matched {
					return viol("c20/request-altered", "the replying KDC did not receive exactly the embedded Kerberos message (%d bytes): TCP %v UDP %v (%s)", len(msg), lens(k.TCPReceived()), lens(k.UDPReceived()), desc)
				}
			}
			_ = udpOnly
		}
		if !matched && !udpOnly {
			return viol("c20/reply-altered", "the returned kerb-message (%d bytes) is not the reply of any replying KDC of the realm (%s)", len(got), desc)
		}
		return nil
	}
	if replying {
		return viol("c20/reply-lost", "a KDC of the realm replied on TCP but the proxy answered %d after %v (%s)", resp.StatusCode, took.Round(time.Millisecond), desc)
	}
	return nil
}

func rawPost(addr, method string, contentLength int, firstBytes []byte) (*http.Response, error) {
	c, err := net.DialTimeout("tcp", addr, 5*time.Second)
	if err != nil {
		return nil, err
	}
	c.SetDeadline(time.Now().Add(answerBound))
	fmt.Fprintf(c, "%s /KdcProxy HTTP/1.1\r\nHost: %s\r\nContent-Type: application/kerberos\r\nContent-Length: %d\r\nConnection: close\r\n\r\n", method, addr, contentLength)
	c.Write(firstBytes)
	resp, err := http.ReadResponse(bufio.NewReader(c), nil)
	if err != nil {
		c.Close()
		return nil, err
	}
	b, _ := io.ReadAll(resp.Body)
	c.Close()
	resp.Body = io.NopCloser(bytes.NewReader(b))
	return resp, nil
}

func lens(bs [][]byte) []int {
	var l []int
	for _, b := range bs {
		l = append(l, len(b))
	}
	return l
}

func TestC20_FN(t *testing.T) {
	dir := t.TempDir()
	runProp(t, "C20_FN", genC20, func(c c20Case) (bool, []string) {
		cl := []string{"realm=" + c.Realm, "malformed=" + c.Malformed}
		for _, r := range c.Realms {
			for _, k := range r {
				cl = append(cl, "kdc="+k.Behaviour)
			}
		}
		nt := (c.Malformed == "" && (c.Realm == "absent" || c.Realm == "r0" || c.Realm == "r1")) || (c.Malformed != "" && c.Malformed != "method" && c.Malformed != "chunked" && c.Malformed != "too-long")
		return nt, cl
	}, func(c c20Case) *Violation { return runC20(c, dir) })
}

var _ = net.Dial

// closeBounded closes a test server without waiting for ever on a handler that never returns (httptest's Close
// blocks until every outstanding request is done - exactly what a "no answer" violation prevents).
func closeBounded(ts *httptest.Server) {
	done := make(chan struct{})
	go func() { ts.CloseClientConnections(); ts.Close(); close(done) }()
	select {
	case <-done:
	case <-time.After(2 * time.Second):
	}
}

// ---- concurrent requests: every client gets the reply to its own message ----

type c20Conc struct {
	Clients int `json:"concurrent_clients"`
	Each    int `json:"requests_each"`
	MaxKB   int `json:"reply_size_up_to_kb"`
	Dead    int `json:"further_kdcs_that_refuse,omitempty"` // the realm lists that many more KDCs (1..3 in all); nothing listens there
	LivePos int `json:"position_of_the_live_kdc,omitempty"`
}

func c20ReplyFor(req []byte) []byte {
	// the reply depends on every byte of the request: length from the first two bytes, content from a running sum
	if len(req) < 8 {
		return nil
	}
	n := 200 + (int(req[0])<<8|int(req[1]))%58000
	out := make([]byte, n)
	var s byte
	for _, b := range req {
		s = s*31 + b
	}
	for i := range out {
		out[i] = s + byte(i*7)
	}
	return out
}

func TestC20_CONC(t *testing.T) {
	dir := t.TempDir()
	runProp(t, "C20_CONC", func(t *rapid.T) c20Conc {
		c := c20Conc{Clients: rapid.IntRange(2, 16).Draw(t, "clients"), Each: rapid.IntRange(10, 120).Draw(t, "each"), MaxKB: 58}
		c.Dead = rapid.IntRange(0, 2).Draw(t, "dead")
		c.LivePos = rapid.IntRange(0, c.Dead).Draw(t, "livePos")
		return c
	}, func(c c20Conc) (bool, []string) { return true, []string{fmt.Sprintf("kdcs=%d", 1+c.Dead)} }, func(c c20Conc) *Violation {
		k, err := kdc.Start("silent", nil, false)
		if err != nil {
			return viol("infra", "cannot start fake KDC: %v", err)
		}
		defer k.Close()
		k.ReplyFor = c20ReplyFor
		cf := filepath.Join(dir, fmt.Sprintf("krb5-conc-%d.conf", time.Now().UnixNano()))
		var kdcLines string
		for i, d := 0, 0; i <= c.Dead; i++ {
			if i == c.LivePos {
				kdcLines += "  kdc = " + k.Addr() + "\n"
			} else {
				d++
				kdcLines += fmt.Sprintf("  kdc = 127.0.0.%d:1\n", 1+d) // a privileged port of another loopback address: refused, and never our own source port
			}
		}
		os.WriteFile(cf, []byte("[libdefaults]\n default_realm = EXAMPLE.COM\n dns_lookup_kdc = false\n[realms]\n EXAMPLE.COM = {\n"+kdcLines+" }\n"), 0o600)
		defer os.Remove(cf)
		proxy := kdcproxy.InitKdcProxy(cf)
		ts := httptest.NewServer(http.HandlerFunc(proxy.Handler))
		defer closeBounded(ts)
		errs := make(chan string, c.Clients)
		var wg sync.WaitGroup
		for w := 0; w < c.Clients; w++ {
			wg.Add(1)
			go func(w int) {
				defer wg.Done()
				cl := &http.Client{Timeout: answerBound}
				for i := 0; i < c.Each; i++ {
					payload := []byte{byte(w*37 + i), byte(i * 11), byte(w), byte(i), byte(i >> 8), 0xC2, byte(w ^ i), 0x20}
					msg := append(binary.BigEndian.AppendUint32(nil, uint32(len(payload))), payload...)
					resp, err := cl.Post(ts.URL+"/KdcProxy", "application/kerberos", bytes.NewReader(kdc.EncodeProxyMessage(msg, "EXAMPLE.COM", false)))
					if err != nil {
						errs <- fmt.Sprintf("client %d request %d: no answer: %v", w, i, err)
						return
					}
					rb, _ := io.ReadAll(resp.Body)
					resp.Body.Close()
					want := c20ReplyFor(payload)
					got, ok := kdc.DecodeProxyMessage(rb)
					if resp.StatusCode != 200 || !ok || len(got) < 4 || !bytes.Equal(got[4:], want) || binary.BigEndian.Uint32(got) != uint32(len(want)) {
						errs <- fmt.Sprintf("client %d request %d: status %d, the KDC's reply to this message has %d bytes, the relayed one %d (prefix %x): not the reply to this client's message", w, i, resp.StatusCode, len(want), len(got)-4, got[:min(4, len(got))])
						return
					}
				}
			}(w)
		}
		wg.Wait()
		select {
		case e := <-errs:
			return viol("c20/reply-of-another-request", "%s (%d clients at once, replies over UDP, %d KDCs listed for the realm of which one answers)", e, c.Clients, 1+c.Dead)
		default:
		}
		return nil
	})
}
