package props

import (
	"bytes"
	"encoding/json"
	"fmt"
	"os"
	"strconv"
	"testing"

	"github.com/bolkedebruin/rdpgw/cmd/rdpgw/protocol"
	"pgregory.net/rapid"

	"verif/harness/lab/ev"
	"verif/harness/lab/sess"
	"verif/harness/lab/tsgu"
)

// C17 — authentication capability negotiation.

type c17Case struct {
	Cookie  bool   `json:"cookie_auth"`
	SC      bool   `json:"smartcard_auth"`
	Caps    uint16 `json:"client_caps"`
	Major   byte   `json:"major"`
	Minor   byte   `json:"minor"`
	Version uint16 `json:"version"`
	Kind    string `json:"transport"`
	Extra   int    `json:"bytes_after_the_defined_fields,omitempty"` // the request packet is that much longer than its six defined bytes (its header says so): later protocol revisions may append fields
	Split   int    `json:"request_split_at,omitempty"` // > 0: the 14-byte handshake request travels in two transport units, cut after this many bytes
}

func genKind(t *rapid.T) string {
	return rapid.SampledFrom([]string{"ws", "ws", "legacy"}).Draw(t, "transport")
}

func genC17(t *rapid.T) c17Case {
	var caps uint16
	switch rapid.IntRange(0, 3).Draw(t, "capsMode") {
	case 0:
		caps = uint16(rapid.IntRange(0, 15).Draw(t, "low"))
	case 1:
		caps = uint16(rapid.IntRange(0, 15).Draw(t, "low")) | uint16(rapid.IntRange(0, 0xfff).Draw(t, "high"))<<4
	case 2:
		caps = uint16(1) << uint(rapid.IntRange(0, 15).Draw(t, "bit"))
	default:
		caps = rapid.Uint16().Draw(t, "caps")
	}
	c := c17Case{
		Cookie: rapid.Bool().Draw(t, "cookie"), SC: rapid.Bool().Draw(t, "sc"), Caps: caps,
		Major: rapid.Byte().Draw(t, "major"), Minor: rapid.Byte().Draw(t, "minor"),
		Version: rapid.Uint16().Draw(t, "version"), Kind: genKind(t),
	}
	if rapid.IntRange(0, 3).Draw(t, "split") == 0 {
		c.Split = rapid.IntRange(1, 13).Draw(t, "splitAt")
	}
	if rapid.IntRange(0, 4).Draw(t, "extra") == 0 {
		c.Extra = rapid.SampledFrom([]int{1, 2, 4, 26, 500}).Draw(t, "extraBytes")
	}
	return c
}

func c17Server(c c17Case) uint16 {
	var s uint16
	if c.SC {
		s |= 1
	}
	if c.Cookie {
		s |= 2
	}
	return s
}

// reference predicate, from the property statement
func c17Expect(c c17Case) bool {
	s := c17Server(c)
	return (s == 0 && c.Caps == 0) || (s&c.Caps != 0)
}

func checkC17(c c17Case, r sess.Result) *Violation {
	if r.OpenStatus != 0 {
		return viol("c17/open", "transport did not open: %d %s", r.OpenStatus, r.OpenErr)
	}
	resps, err := sess.Decode(r.Pkts)
	if err != nil {
		return viol("c17/decode", "%v", err)
	}
	if !r.Ended {
		return viol("c17/no-end", "tunnel did not end after the terminator; got %v", resps)
	}
	if !r.OutEnded {
		return viol("c17/out-open", "the gateway closed RDG_IN_DATA but left the RDG_OUT_DATA connection of the tunnel open; got %v", resps)
	}
	if len(resps) == 0 || resps[0].Type != tsgu.PktHandshakeResponse {
		return viol("c17/no-response", "no handshake response; got %v", resps)
	}
	hs := resps[0]
	if c17Expect(c) {
		if hs.Status != 0 {
			return viol("c17/refused-match", "server=%#x client=%#x must succeed, got status %#x", c17Server(c), c.Caps, hs.Status)
		}
		if hs.ExtAuth != c17Server(c) {
			return viol("c17/advertise", "server advertises %#x, enabled mechanisms are %#x", hs.ExtAuth, c17Server(c))
		}
		if hs.Major != c.Major || hs.Minor != c.Minor {
			return viol("c17/version-echo", "version bytes %d.%d not echoed: got %d.%d", c.Major, c.Minor, hs.Major, hs.Minor)
		}
		// the next step is answered with success, then the terminator is refused
		if len(resps) != 3 || resps[1].Type != tsgu.PktTunnelResponse || resps[1].Status != 0 ||
			resps[2].Type != tsgu.PktHandshakeResponse || resps[2].Status == 0 {
			return viol("c17/next-step", "after a successful handshake expected tunnel response 0 and a refused second handshake, got %v", resps)
		}
	} else {
		if hs.Status != tsgu.ErrCapabilityMismatch {
			return viol("c17/accepted-mismatch", "server=%#x client=%#x must fail with capability mismatch, got status %#x", c17Server(c), c.Caps, hs.Status)
		}
		if len(resps) != 1 {
			return viol("c17/continues-after-mismatch", "tunnel must end after capability mismatch, got further packets %v", resps[1:])
		}
	}
	return nil
}

func c17Units(c c17Case) [][]byte {
	hs := tsgu.Handshake(c.Major, c.Minor, c.Version, c.Caps)
	if c.Extra > 0 {
		body := append(append([]byte{}, hs[8:]...), bytes.Repeat([]byte{0xEE}, c.Extra)...)
		hs = tsgu.Packet(tsgu.PktHandshakeRequest, body)
	}
	u := [][]byte{
		hs,
		tsgu.TunnelCreate("", false),
		tsgu.Handshake(0, 0, 0, c.Caps), // terminator: refused in every phase but the first
	}
	if c.Split > 0 && c.Split < len(u[0]) {
		u = append([][]byte{u[0][:c.Split], u[0][c.Split:]}, u[1:]...)
	}
	return u
}

func TestC17_INP(t *testing.T) {
	runProp(t, "C17_INP", genC17,
		func(c c17Case) (bool, []string) {
			return true, []string{fmt.Sprintf("server=%d", c17Server(c)), "kind=" + c.Kind, fmt.Sprintf("expect=%v", c17Expect(c))}
		},
		func(c c17Case) *Violation {
			gw := &protocol.Gateway{TokenAuth: c.Cookie, SmartCardAuth: c.SC}
			return withGateway(gw, func() *Violation {
				r := sess.Run(c.Kind, inpTarget(), c17Units(c))
				return checkC17(c, r)
			})
		})
}

// ---- BIN: the four server settings through the configuration file ----

type c17Bin struct {
	Cookie bool      `json:"cookie_auth"`
	SC     bool      `json:"smartcard_auth"`
	Batch  []c17Case `json:"batch"`
}

func TestC17_BIN(t *testing.T) {
	runProp(t, "C17_BIN", func(t *rapid.T) c17Bin {
		c := c17Bin{Cookie: rapid.Bool().Draw(t, "cookie"), SC: rapid.Bool().Draw(t, "sc")}
		n := rapid.IntRange(1, 20).Draw(t, "batch")
		for i := 0; i < n; i++ {
			s := genC17(t)
			s.Cookie, s.SC = c.Cookie, c.SC
			c.Batch = append(c.Batch, s)
		}
		return c
	}, func(c c17Bin) (bool, []string) {
		return true, []string{fmt.Sprintf("server=%d", c17Server(c17Case{Cookie: c.Cookie, SC: c.SC}))}
	}, func(c c17Bin) *Violation {
		o := resolveHosts(gwOpts{TokenAuth: c.Cookie, SmartCard: c.SC, HostSelection: "roundrobin", Hosts: []string{"$A"}, VerifyIP: true})
		in, tgt, err := binFor(o, W().User)
		if err != nil {
			return viol("bin/start", "%v", err)
		}
		for i, s := range c.Batch {
			units := c17Units(s)
			if c.Cookie {
				// the real wiring checks the cookie: present a valid one so that "the next step is answered"
				ck, _, _, _ := W().mintCookie("valid:A", "127.0.0.1")
				units[len(units)-2] = tsgu.TunnelCreate(ck, true)
			}
			if v := checkC17(s, sess.Run(s.Kind, tgt, units)); v != nil {
				v.Msg = fmt.Sprintf("sub-case %d %+v: %s", i, s, v.Msg)
				return v
			}
		}
		return binHealth(in)
	})
}

// ---- exhaustive enumeration of the 4 x 65536 table (thorough tier; sharded by capability value) ----

func TestC17_EXH(t *testing.T) {
	if os.Getenv("VERIF_REPLAY") != "" {
		t.Skip("no replay for the enumeration; failures are saved as C17_INP cases")
	}
	shard, _ := strconv.Atoi(os.Getenv("VERIF_SHARD"))
	n, _ := strconv.Atoi(os.Getenv("VERIF_NSHARDS"))
	if n <= 0 {
		n = 1
	}
	seed, _ := strconv.Atoi(os.Getenv("VERIF_SEEDVAL"))
	for caps := shard; caps < 65536; caps += n {
		for s := 0; s < 4; s++ {
			h := uint32(caps*2654435761) ^ uint32(seed*40503) ^ uint32(s*977)
			c := c17Case{Cookie: s&2 != 0, SC: s&1 != 0, Caps: uint16(caps), Major: byte(h), Minor: byte(h >> 8), Version: uint16(h >> 16), Kind: "ws"}
			if h%7 == 0 {
				c.Kind = "legacy"
			}
			cj, _ := json.Marshal(c)
			ev.Record("C17_EXH", cj, true, fmt.Sprintf("server=%d", s))
			gw := &protocol.Gateway{TokenAuth: c.Cookie, SmartCardAuth: c.SC}
			v := withGateway(gw, func() *Violation { return checkC17(c, sess.Run(c.Kind, inpTarget(), c17Units(c))) })
			if v != nil {
				rf, _ := json.MarshalIndent(replayFile{Unit: "C17_INP", Violation: v, Case: cj}, "", " ")
				p := replayPath("C17_EXH")
				os.WriteFile(p, rf, 0o644)
				fmt.Printf("FAILCASE unit=C17_EXH replay=%s sig=%s\n", p, v.Sig)
				t.Fatalf("[%s] %s", v.Sig, v.Msg)
			}
		}
	}
}
