package props

import (
	"context"
	"fmt"
	"net/http"
	"net/http/httptest"
	"net/url"
	"os"
	"path/filepath"
	"reflect"
	"sort"
	"strconv"
	"strings"
	"testing"
	"unicode"
	"unicode/utf8"

	"github.com/bolkedebruin/rdpgw/cmd/rdpgw/identity"
	"github.com/bolkedebruin/rdpgw/cmd/rdpgw/rdp"
	rdpparser "github.com/bolkedebruin/rdpgw/cmd/rdpgw/rdp/koanf/parsers/rdp"
	"github.com/bolkedebruin/rdpgw/cmd/rdpgw/web"
	"pgregory.net/rapid"
)

// C19 — generated connection files are well-formed and round-trip through the parser.

var c19Alphabet = []rune("abcXYZ019 :;#-_./\\@%\t" + "éßñ日本語Ωж😀")

func genValue(t *rapid.T, label string) string {
	var s string
	switch rapid.IntRange(0, 9).Draw(t, label+"Kind") {
	case 0:
		s = ""
	case 1: // long line, around the 4 KiB bound
		n := rapid.SampledFrom([]int{3000, 4000, 4060, 4070, 4080}).Draw(t, label+"Long")
		s = strings.Repeat("x", n) + string(rapid.SliceOfN(rapid.SampledFrom(c19Alphabet), 0, 8).Draw(t, label+"Tail"))
	case 2:
		s = rapid.SampledFrom([]string{"0", "1", "true", "false", "-1", "007", ":", "::", "s:x", "i:1", "a:b:c", "#", "x # y"}).Draw(t, label+"Special")
	default:
		s = string(rapid.SliceOfN(rapid.SampledFrom(c19Alphabet), 0, 40).Draw(t, label))
	}
	return strings.TrimFunc(s, unicode.IsSpace)
}

func genName(t *rapid.T, label string) string {
	al := []rune("abcdefgXYZ0189 -_./")
	s := strings.TrimSpace(string(rapid.SliceOfN(rapid.SampledFrom(al), 1, 24).Draw(t, label)))
	if s == "" || strings.HasPrefix(s, "#") {
		s = "k" + s
	}
	return s
}

// ---- (1) parse(marshal(m)) == m ----

type c19Map struct {
	Ints map[string]int    `json:"ints"`
	Strs map[string]string `json:"strings"`
}

func TestC19_MAP(t *testing.T) {
	runProp(t, "C19_MAP", func(t *rapid.T) c19Map {
		c := c19Map{Ints: map[string]int{}, Strs: map[string]string{}}
		for i, n := 0, rapid.IntRange(0, 8).Draw(t, "nints"); i < n; i++ {
			c.Ints[genName(t, "iname")] = rapid.SampledFrom([]int{0, 1, -1, 2, 42, -2147483648, 2147483647, 1 << 40}).Draw(t, "ival")
		}
		for i, n := 0, rapid.IntRange(0, 8).Draw(t, "nstrs"); i < n; i++ {
			k := genName(t, "sname")
			if _, dup := c.Ints[k]; !dup {
				c.Strs[k] = genValue(t, "sval")
			}
		}
		return c
	}, func(c c19Map) (bool, []string) {
		nt := false
		for _, v := range c.Strs {
			if strings.Contains(v, ":") || !isASCII(v) || len(v) > 2000 {
				nt = true
			}
		}
		return nt || len(c.Ints) > 0, nil
	}, func(c c19Map) *Violation {
		m := map[string]interface{}{}
		for k, v := range c.Ints {
			m[k] = v
		}
		for k, v := range c.Strs {
			m[k] = v
		}
		p := rdpparser.Parser()
		b, err := p.Marshal(m)
		if err != nil {
			return viol("c19/marshal-error", "Marshal failed: %v", err)
		}
		if v := checkLines(string(b)); v != nil {
			return v
		}
		// a result stays what it is while other maps are marshalled (the next download, another goroutine)
		snapshot := string(b)
		p.Marshal(map[string]interface{}{"username": "somebody else", "zz other setting": 7, "audiomode": 2})
		p.Marshal(map[string]interface{}{})
		if string(b) != snapshot {
			return viol("c19/marshal-result-changed", "the bytes Marshal returned changed when another map was marshalled afterwards:\n before: %q\n after:  %q", shorten(snapshot), shorten(string(b)))
		}
		back, err := p.Unmarshal(b)
		if err != nil {
			return viol("c19/roundtrip-error", "parse(marshal(m)) failed: %v", err)
		}
		if !reflect.DeepEqual(back, m) {
			return viol("c19/roundtrip-mismatch", "parse(marshal(m)) != m:\n m    = %v\n back = %v", short(m), short(back))
		}
		return nil
	})
}

func isASCII(s string) bool {
	for i := 0; i < len(s); i++ {
		if s[i] >= 0x80 {
			return false
		}
	}
	return true
}

func short(m map[string]interface{}) string {
	keys := make([]string, 0, len(m))
	for k := range m {
		keys = append(keys, k)
	}
	sort.Strings(keys)
	var sb strings.Builder
	for _, k := range keys {
		v := fmt.Sprintf("%v", m[k])
		if len(v) > 40 {
			v = fmt.Sprintf("%s…(%d bytes)", v[:30], len(v))
		}
		fmt.Fprintf(&sb, "%q=%T(%s) ", k, m[k], v)
	}
	return sb.String()
}

// checkLines: CRLF-terminated name:(i|s):value lines, each name at most once.
func checkLines(out string) *Violation {
	if out == "" {
		return nil
	}
	if !strings.HasSuffix(out, "\r\n") {
		return viol("c19/not-crlf-terminated", "output does not end with CRLF: …%q", tail(out, 30))
	}
	seen := map[string]bool{}
	for i, ln := range strings.Split(strings.TrimSuffix(out, "\r\n"), "\r\n") {
		if strings.ContainsAny(ln, "\r\n") {
			return viol("c19/bare-line-terminator", "line %d contains a bare CR or LF: %q", i, shorten(ln))
		}
		f := strings.SplitN(ln, ":", 3)
		if len(f) != 3 || (f[1] != "i" && f[1] != "s") || f[0] == "" {
			return viol("c19/line-shape", "line %d is not name:(i|s):value: %q", i, shorten(ln))
		}
		if f[1] == "i" {
			if _, err := strconv.Atoi(f[2]); err != nil {
				return viol("c19/line-shape", "line %d: integer setting with value %q", i, f[2])
			}
		}
		if seen[f[0]] {
			return viol("c19/duplicate-setting", "setting %q appears twice", f[0])
		}
		seen[f[0]] = true
	}
	return nil
}

// ---- (2) builder -> String() -> file -> NewBuilderFromFile ----

type c19Settings struct {
	Fields map[string]string `json:"fields"` // field name -> value as text
}

func setField(v reflect.Value, text string) {
	switch v.Kind() {
	case reflect.Bool:
		v.SetBool(text == "true")
	case reflect.Int:
		n, _ := strconv.Atoi(text)
		v.SetInt(int64(n))
	case reflect.String:
		v.SetString(text)
	}
}

func genSettings(t *rapid.T) c19Settings {
	c := c19Settings{Fields: map[string]string{}}
	rt := reflect.TypeOf(rdp.RdpSettings{})
	for i := 0; i < rt.NumField(); i++ {
		f := rt.Field(i)
		if rapid.IntRange(0, 2).Draw(t, "assign") == 0 {
			continue
		}
		switch f.Type.Kind() {
		case reflect.Bool:
			c.Fields[f.Name] = strconv.FormatBool(rapid.Bool().Draw(t, f.Name))
		case reflect.Int:
			c.Fields[f.Name] = strconv.Itoa(rapid.SampledFrom([]int{0, 1, 2, 3, -1, 1500, 65535, -2147483648, 2147483647}).Draw(t, f.Name))
		case reflect.String:
			c.Fields[f.Name] = genValue(t, f.Name)
		}
	}
	return c
}

func TestC19_BUILDER(t *testing.T) {
	dir := t.TempDir()
	runProp(t, "C19_BUILDER", genSettings, func(c c19Settings) (bool, []string) {
		nt := false
		for _, v := range c.Fields {
			if strings.Contains(v, ":") || !isASCII(v) || v == "" {
				nt = true
			}
		}
		return nt || len(c.Fields) > 0, nil
	}, func(c c19Settings) *Violation {
		b := rdp.NewBuilder()
		sv := reflect.ValueOf(&b.Settings).Elem()
		for name, text := range c.Fields {
			setField(sv.FieldByName(name), text)
		}
		out := b.String()
		if v := checkLines(out); v != nil {
			return v
		}
		fn := filepath.Join(dir, "roundtrip.rdp")
		if err := os.WriteFile(fn, []byte(out), 0o600); err != nil {
			return viol("infra", "%v", err)
		}
		back, err := rdp.NewBuilderFromFile(fn)
		if err != nil {
			return viol("c19/readback-error", "the gateway's own reader rejects the generated file: %v", err)
		}
		if !reflect.DeepEqual(back.Settings, b.Settings) {
			return viol("c19/readback-mismatch", "settings read back differ: %s", diffSettings(b.Settings, back.Settings))
		}
		return nil
	})
}

func diffSettings(a, b rdp.RdpSettings) string {
	va, vb := reflect.ValueOf(a), reflect.ValueOf(b)
	var d []string
	for i := 0; i < va.NumField(); i++ {
		if !reflect.DeepEqual(va.Field(i).Interface(), vb.Field(i).Interface()) {
			d = append(d, fmt.Sprintf("%s: held %q, read back %q", va.Type().Field(i).Name, shorten(fmt.Sprint(va.Field(i).Interface())), shorten(fmt.Sprint(vb.Field(i).Interface()))))
		}
	}
	return strings.Join(d, "; ")
}

// ---- (3) templates through the download handler ----

type c19Template struct {
	Settings c19Settings `json:"template_settings"`
	Blank    []int       `json:"blank_or_comment_after"`
	TypeB    bool        `json:"use_b_type_letter"`
	User     string      `json:"user"`
	Earlier  []string    `json:"earlier_downloads,omitempty"` // users who downloaded from the same gateway before
	Broken   string      `json:"broken_template,omitempty"`   // a malformed line added to the template (or "missing-file"): the download must fail instead of silently using defaults
	Host     string      `json:"host"`
	NoUser   bool        `json:"no_username"`
	Split    bool        `json:"split_user_domain"`
}

var controlled = map[string]bool{"GatewayHostname": true, "FullAddress": true, "GatewayCredentialsSource": true, "GatewayCredentialMethod": true,
	"GatewayUsageMethod": true, "GatewayAccessToken": true, "Username": true, "Domain": true}

func TestC19_TEMPLATE(t *testing.T) {
	dir := t.TempDir()
	runProp(t, "C19_TEMPLATE", func(t *rapid.T) c19Template {
		c := c19Template{Settings: genSettings(t), TypeB: rapid.Bool().Draw(t, "typeB"), NoUser: rapid.Bool().Draw(t, "nouser"), Split: rapid.Bool().Draw(t, "split")}
		c.User = rapid.SampledFrom([]string{"alice", "bob@example.com", "Ünï cødé", "a:b", "x y", "alice ", " alice", "bob @ example.com"}).Draw(t, "user")
		c.Earlier = rapid.SliceOfN(rapid.SampledFrom([]string{"carol@corp.example", "dave", "erin@x", "alice"}), 0, 3).Draw(t, "earlier")
		if rapid.IntRange(0, 5).Draw(t, "broken") == 0 {
			c.Broken = rapid.SampledFrom([]string{"no colons here", "onlyname:", "desktopwidth:i:wide", "desktopwidth:i:", "audiomode:x:1", "name:s", "missing-file"}).Draw(t, "brokenLine")
		}
		c.Host = rapid.SampledFrom([]string{"10.0.0.1:3389", "host.example:3390", "[::1]:3389"}).Draw(t, "host")
		c.Blank = rapid.SliceOfN(rapid.IntRange(0, 60), 0, 4).Draw(t, "blank")
		return c
	}, func(c c19Template) (bool, []string) { return len(c.Settings.Fields) > 0, nil }, func(c c19Template) *Violation {
		rt := reflect.TypeOf(rdp.RdpSettings{})
		// render the template
		var sb strings.Builder
		names := make([]string, 0, len(c.Settings.Fields))
		for n := range c.Settings.Fields {
			names = append(names, n)
		}
		sort.Strings(names)
		blank := map[int]bool{}
		for _, b := range c.Blank {
			blank[b] = true
		}
		for i, n := range names {
			f, _ := rt.FieldByName(n)
			v := c.Settings.Fields[n]
			tl := "s"
			switch f.Type.Kind() {
			case reflect.Bool:
				tl = "i"
				if v == "true" {
					v = "1"
				} else {
					v = "0"
				}
			case reflect.Int:
				tl = "i"
			default:
				if c.TypeB && i%3 == 0 {
					tl = "b"
				}
			}
			fmt.Fprintf(&sb, "%s:%s:%s\r\n", f.Tag.Get("rdp"), tl, v)
			if blank[i] {
				sb.WriteString("\r\n# a comment: with colons\r\n   \r\n")
			}
		}
		if c.Broken != "" && c.Broken != "missing-file" {
			// somewhere in the middle of the well-formed lines
			lines := strings.SplitAfter(sb.String(), "\r\n")
			at := len(lines) / 2
			sb.Reset()
			sb.WriteString(strings.Join(lines[:at], "") + c.Broken + "\r\n" + strings.Join(lines[at:], ""))
		}
		fn := filepath.Join(dir, "template.rdp")
		os.WriteFile(fn, []byte(sb.String()), 0o600)
		if c.Broken == "missing-file" {
			os.Remove(fn)
		}
		gwURL, _ := url.Parse("https://gw.example.test:8443/")
		newHandler := func() *web.Handler {
			return (&web.Config{
				PAATokenGenerator: func(context.Context, string, string) (string, error) { return "the.access.token", nil },
				Hosts:             []string{c.Host}, HostSelection: "roundrobin", GatewayAddress: gwURL,
				RdpOpts:           web.RdpOpts{NoUsername: c.NoUser, SplitUserDomain: c.Split}, TemplateFile: fn,
			}).NewHandler()
		}
		h := newHandler()
		download := func(user string) *httptest.ResponseRecorder {
			id := identity.NewUser()
			id.SetUserName(user)
			id.SetAuthenticated(true)
			req := httptest.NewRequest("GET", "/connect", nil)
			req = identity.AddToRequestCtx(id, req)
			rr := httptest.NewRecorder()
			h.HandleDownload(rr, req)
			return rr
		}
		// earlier downloads by other users: what this user gets must not depend on them
		for _, u := range c.Earlier {
			download(u)
		}
		rr := download(c.User)
		if c.Broken != "" {
			// the administrator's template cannot be used: answering 200 would hand out a file without its settings
			if rr.Code == http.StatusOK {
				return viol("c19/broken-template-served", "template with the malformed line %q (or missing file): the download answered 200 instead of failing:\n%s", c.Broken, shorten(rr.Body.String()))
			}
			return nil
		}
		if rr.Code != http.StatusOK {
			return viol("c19/template-rejected", "download with a well-formed template answered %d: %s\n template:\n%s", rr.Code, rr.Body.String(), shorten(sb.String()))
		}
		out := rr.Body.String()
		if v := checkLines(out); v != nil {
			return v
		}
		got, err := rdpparser.Parser().Unmarshal([]byte(out))
		if err != nil {
			return viol("c19/readback-error", "generated file does not parse: %v", err)
		}
		if len(c.Earlier) > 0 {
			// the same download from a gateway nobody used before: template, user, host and token are the same,
			// so the settings must be the same
			h = newHandler()
			fresh, err := rdpparser.Parser().Unmarshal(download(c.User).Body.Bytes())
			if err != nil || !reflect.DeepEqual(got, fresh) {
				return viol("c19/download-depends-on-earlier-downloads", "after downloads by %q the file for %q differs from the one a fresh gateway produces: %s", c.Earlier, c.User, shorten(diffMaps(fresh, got)))
			}
		}
		def := rdp.NewBuilder().Settings
		dv := reflect.ValueOf(def)
		for _, n := range names {
			f, _ := rt.FieldByName(n)
			tag := f.Tag.Get("rdp")
			text := c.Settings.Fields[n]
			if controlled[n] {
				continue
			}
			// value as the parser will report it
			var want interface{} = text
			isDefault := false
			switch f.Type.Kind() {
			case reflect.Bool:
				want = 0
				if text == "true" {
					want = 1
				}
				isDefault = dv.FieldByName(n).Bool() == (text == "true")
			case reflect.Int:
				nn, _ := strconv.Atoi(text)
				want = nn
				isDefault = int(dv.FieldByName(n).Int()) == nn
			default:
				isDefault = dv.FieldByName(n).String() == text
			}
			if isDefault {
				continue // the statement speaks about values that differ from the built-in default
			}
			if g, ok := got[tag]; !ok || !reflect.DeepEqual(g, want) {
				return viol("c19/template-setting-lost", "template sets %q to %v (default differs) but the generated file has %v (present=%v)", tag, shorten(fmt.Sprint(want)), shorten(fmt.Sprint(g)), ok)
			}
		}
		// the settings the gateway controls
		user, domain := c.User, ""
		if c.Split {
			p := strings.SplitN(c.User, "@", 2)
			user = p[0]
			if len(p) > 1 {
				domain = p[1]
			}
		}
		wantCtl := map[string]interface{}{"gatewayhostname": "gw.example.test:8443", "full address": c.Host, "gatewaycredentialssource": 5,
			"gatewayprofileusagemethod": 1, "gatewayusagemethod": 1, "gatewayaccesstoken": "the.access.token"}
		if !c.NoUser {
			wantCtl["username"] = user
			if domain != "" {
				wantCtl["domain"] = domain
			}
		}
		if c.NoUser {
			// suppressed: user name and domain are left to the template (kept if it sets them, absent otherwise)
			for tag, field := range map[string]string{"username": "Username", "domain": "Domain"} {
				tv, inTemplate := c.Settings.Fields[field]
				g, present := got[tag]
				if inTemplate && tv != "" {
					if !present || g != tv {
						return viol("c19/suppressed-user-setting", "user name and domain are suppressed: %q must stay the template's %q, generated file has %v (present=%v)", tag, tv, g, present)
					}
				} else if present && g != "" {
					return viol("c19/suppressed-user-setting", "user name and domain are suppressed and the template does not set %q, yet the generated file has %v", tag, g)
				}
			}
		}
		var blanksLost *Violation
		for k, w := range wantCtl {
			if ws, isText := w.(string); isText && (k == "username" || k == "domain") && ws != strings.TrimSpace(ws) && got[k] == strings.TrimSpace(ws) {
				// listed finding: the reader strips blanks at the ends of every line and value, the builder writes them
				blanksLost = viol("c19/outer-blanks-lost", "%s %q is written to the file as it is and read back as %q: the reader does not yield what the builder held", k, ws, got[k])
				continue
			}
			if !reflect.DeepEqual(got[k], w) {
				return viol("c19/controlled-setting", "setting %q must be %v (gateway-controlled), generated file has %v", k, w, got[k])
			}
		}
		if blanksLost != nil {
			return blanksLost // every other clause held for this case
		}
		return nil
	})
}

// ---- (4) differential against an independent line grammar ----

func refParse(b []byte) (map[string]interface{}, bool) {
	m := map[string]interface{}{}
	s := string(b)
	for len(s) > 0 {
		var line string
		if i := strings.IndexByte(s, '\n'); i >= 0 {
			line, s = s[:i], s[i+1:]
		} else {
			line, s = s, ""
		}
		line = strings.TrimSuffix(line, "\r")
		line = strings.TrimFunc(line, unicode.IsSpace)
		if line == "" || line[0] == '#' {
			continue
		}
		c1 := strings.IndexByte(line, ':')
		if c1 < 0 {
			return nil, false
		}
		c2 := strings.IndexByte(line[c1+1:], ':')
		if c2 < 0 {
			return nil, false
		}
		c2 += c1 + 1
		name := strings.TrimFunc(line[:c1], unicode.IsSpace)
		typ := strings.TrimFunc(line[c1+1:c2], unicode.IsSpace)
		val := strings.TrimFunc(line[c2+1:], unicode.IsSpace)
		switch typ {
		case "s", "b":
			m[name] = val
		case "i":
			n, err := strconv.Atoi(val)
			if err != nil {
				return nil, false
			}
			m[name] = n
		default:
			return nil, false
		}
	}
	return m, true
}

type c19Bytes struct {
	Data []byte `json:"data"`
}

func genRdpBytes(t *rapid.T) c19Bytes {
	var sb strings.Builder
	n := rapid.IntRange(0, 8).Draw(t, "nlines")
	for i := 0; i < n; i++ {
		switch rapid.IntRange(0, 11).Draw(t, "lineKind") {
		case 0:
			sb.WriteString("")
		case 1:
			sb.WriteString("# comment " + genValue(t, "comment"))
		case 2:
			sb.WriteString(genName(t, "name") + ":" + genValue(t, "noType"))
		case 3:
			sb.WriteString(genName(t, "name") + ":" + rapid.SampledFrom([]string{"x", "S", "I", "", "ii", "is"}).Draw(t, "badType") + ":" + genValue(t, "v"))
		case 4:
			sb.WriteString(genName(t, "name") + ":i:" + rapid.SampledFrom([]string{"", "abc", "1.5", "0x10", "1 2", "+5", "-0", "99999999999999999999", " 7 "}).Draw(t, "badInt"))
		case 5:
			sb.WriteString(string(rapid.SliceOfN(rapid.Byte(), 0, 30).Draw(t, "noise")))
		case 6:
			sb.WriteString("  " + genName(t, "name") + " : s : " + genValue(t, "v") + "  ")
		default:
			tl := rapid.SampledFrom([]string{"s", "i", "b"}).Draw(t, "type")
			v := genValue(t, "v")
			if tl == "i" {
				v = strconv.Itoa(rapid.IntRange(-5, 100000).Draw(t, "int"))
			}
			sb.WriteString(genName(t, "name") + ":" + tl + ":" + v)
		}
		sb.WriteString(rapid.SampledFrom([]string{"\r\n", "\n", "\r\n", "\r\r\n", ""}).Draw(t, "eol"))
	}
	return c19Bytes{Data: []byte(sb.String())}
}

func TestC19_PARSE(t *testing.T) {
	runProp(t, "C19_PARSE", genRdpBytes, func(c c19Bytes) (bool, []string) {
		_, ok := refParse(c.Data)
		return strings.Count(string(c.Data), ":") >= 2, []string{fmt.Sprintf("wellformed=%v", ok)}
	}, func(c c19Bytes) *Violation { return checkParse(c.Data) })
}

func checkParse(data []byte) *Violation {
	for _, ln := range strings.Split(string(data), "\n") {
		if len(ln) > 4096 || !utf8.ValidString(ln) && len(ln) > 4096 {
			return nil // outside the quantifier (lines up to 4 KiB)
		}
	}
	want, ok := refParse(data)
	got, err := rdpparser.Parser().Unmarshal(data)
	if !ok {
		if err == nil {
			return viol("c19/malformed-accepted", "a malformed line was not rejected: input %q parsed to %v", shorten(string(data)), short(got))
		}
		return nil
	}
	if err != nil {
		return viol("c19/wellformed-rejected", "well-formed input rejected (%v): %q", err, shorten(string(data)))
	}
	if !reflect.DeepEqual(got, want) {
		return viol("c19/parse-mismatch", "parser result differs from the line grammar: got %v, want %v, input %q", short(got), short(want), shorten(string(data)))
	}
	return nil
}

func FuzzRDPParse(f *testing.F) {
	f.Add([]byte("full address:s:host:3389\r\nscreen mode id:i:2\r\n"))
	f.Add([]byte("# c\r\n\r\nx:b:1\nbad line\n"))
	f.Add([]byte("a:i:\n"))
	f.Fuzz(func(t *testing.T, data []byte) {
		if v := checkParse(data); v != nil {
			t.Fatalf("[%s] %s", v.Sig, v.Msg)
		}
	})
}

// diffMaps lists the keys on which two settings maps differ.
func diffMaps(want, got map[string]interface{}) string {
	var d []string
	for k, w := range want {
		if g, ok := got[k]; !ok || !reflect.DeepEqual(g, w) {
			d = append(d, fmt.Sprintf("%s: fresh %v, got %v (present=%v)", k, w, g, ok))
		}
	}
	for k, g := range got {
		if _, ok := want[k]; !ok {
			d = append(d, fmt.Sprintf("%s: absent from fresh, got %v", k, g))
		}
	}
	sort.Strings(d)
	return strings.Join(d, "; ")
}
