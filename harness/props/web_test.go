package props

import (
	"context"
	"crypto/tls"
	"encoding/json"
	"fmt"
	"io"
	"net"
	"net/http"
	"net/http/cookiejar"
	"net/url"
	"strings"
	"sync"
	"time"

	"verif/harness/lab/gwproc"
	"verif/harness/lab/idp"
)

// Browser-level helpers for the real binary's web endpoints (/connect, /callback, /tokeninfo).

type webOpts struct {
	Store            string   `json:"session_store"` // cookie | file
	HostSelection    string   `json:"host_selection"`
	Hosts            []string `json:"hosts"`
	SplitUserDomain  bool     `json:"split_user_domain,omitempty"`
	UsernameTemplate string   `json:"username_template,omitempty"`
	NoUsername       bool     `json:"no_username,omitempty"`
	EnableUserToken  bool     `json:"enable_user_token,omitempty"`
	UserSigningKey   bool     `json:"user_token_signing_key,omitempty"`
	VerifyIP         bool     `json:"verify_client_ip"`
	VerifyDefault    bool     `json:"verify_client_ip_left_to_default,omitempty"`
	Instance         int      `json:"instance,omitempty"` // distinguishes otherwise equal instances
	RandomKeys       bool     `json:"random_session_keys,omitempty"`
	AlsoNTLM         bool     `json:"ntlm_also_enabled,omitempty"` // authentication: [openid, ntlm] (NTLM guards the tunnel endpoint only)
}

const gatewayHostName = "gw.example.test:8443"

func webConfig(o webOpts) gwproc.Config {
	w := W()
	c := gwproc.Config{}
	c.Set("Server", "Tls", "disable").Set("Server", "GatewayAddress", gatewayHostName).
		Set("Server", "Hosts", o.Hosts).Set("Server", "HostSelection", o.HostSelection).
		Set("Server", "SessionStore", o.Store).Set("Server", "Authentication", []string{"openid"})
	if o.AlsoNTLM {
		c.Set("Server", "Authentication", []string{"openid", "ntlm"}).Set("Server", "AuthSocket", c05Auth().Socket)
	}
	if !o.RandomKeys {
		c.Set("Server", "SessionKey", key32a).Set("Server", "SessionEncryptionKey", key32b)
	}
	c.Set("OpenId", "ProviderUrl", w.IdP.URL).Set("OpenId", "ClientId", w.IdP.ClientID).Set("OpenId", "ClientSecret", w.IdP.ClientSecret)
	c.Set("Caps", "TokenAuth", true)
	if !o.VerifyDefault {
		c.Set("Security", "VerifyClientIp", o.VerifyIP)
	}
	c.Set("Security", "PAATokenSigningKey", testSigningKey).
		Set("Security", "QueryTokenSigningKey", testQueryKey).Set("Security", "QueryTokenIssuer", "portal").
		Set("Security", "EnableUserToken", o.EnableUserToken).Set("Security", "UserTokenEncryptionKey", c15EncKey)
	if o.UserSigningKey {
		c.Set("Security", "UserTokenSigningKey", c15SignKey)
	}
	c.Set("Client", "SplitUserDomain", o.SplitUserDomain).Set("Client", "NoUsername", o.NoUsername)
	if o.UsernameTemplate != "" {
		c.Set("Client", "UsernameTemplate", o.UsernameTemplate)
	}
	return c
}

var (
	webMu   sync.Mutex
	webPool = map[string]*gwproc.Inst{}
)

func webInstance(o webOpts) (*gwproc.Inst, error) {
	kb, _ := json.Marshal(o)
	webMu.Lock()
	defer webMu.Unlock()
	if in := webPool[string(kb)]; in != nil {
		if ex, _ := in.Exited(); !ex {
			return in, nil
		}
		delete(webPool, string(kb))
	}
	in, err := gwproc.Start(webConfig(o), gwproc.StartOpts{})
	if err != nil {
		return nil, err
	}
	if ex, code := in.Exited(); ex {
		return nil, fmt.Errorf("gateway exited at start-up with code %d: %s", code, tail(in.Stderr(), 600))
	}
	if len(webPool) > 24 {
		for k, old := range webPool {
			old.Stop()
			old.Remove()
			delete(webPool, k)
			break
		}
	}
	webPool[string(kb)] = in
	return in, nil
}

func dropWeb(in *gwproc.Inst) {
	webMu.Lock()
	for k, v := range webPool {
		if v == in {
			delete(webPool, k)
		}
	}
	webMu.Unlock()
	in.Stop()
}

// browser: a cookie jar plus the address it appears to come from.
type browser struct {
	Jar     http.CookieJar
	LocalIP string
	XFF     []string
}

func newBrowser() *browser {
	j, _ := cookiejar.New(nil)
	return &browser{Jar: j}
}

type webResp struct {
	Code   int
	Body   string
	Header http.Header
}

func (b *browser) do(method, rawurl string) (webResp, error) {
	d := &net.Dialer{Timeout: 5 * time.Second}
	if b.LocalIP != "" {
		d.LocalAddr = &net.TCPAddr{IP: net.ParseIP(b.LocalIP)}
	}
	dial := d.DialContext
	if strings.Contains(b.LocalIP, ":") {
		// an IPv6 client: same gateway (it listens on both families), same URL (so that the cookie jar applies), reached over ::1
		dial = func(ctx context.Context, network, addr string) (net.Conn, error) {
			_, port, _ := net.SplitHostPort(addr)
			return d.DialContext(ctx, "tcp6", net.JoinHostPort("::1", port))
		}
	}
	cl := &http.Client{Timeout: 20 * time.Second, Jar: b.Jar,
		Transport:     &http.Transport{DialContext: dial, DisableKeepAlives: true, TLSClientConfig: &tls.Config{InsecureSkipVerify: true}},
		CheckRedirect: func(*http.Request, []*http.Request) error { return http.ErrUseLastResponse }}
	req, err := http.NewRequest(method, rawurl, nil)
	if err != nil {
		return webResp{}, err
	}
	for _, l := range b.XFF {
		req.Header.Add("X-Forwarded-For", l)
	}
	resp, err := cl.Do(req)
	if err != nil {
		return webResp{}, err
	}
	defer resp.Body.Close()
	body, _ := io.ReadAll(resp.Body)
	return webResp{resp.StatusCode, string(body), resp.Header}, nil
}

func (b *browser) get(in *gwproc.Inst, path string) (webResp, error) { return b.do("GET", in.URL(path)) }

// beginLogin requests /connect and returns the state the gateway put into the redirect to the IdP.
func (b *browser) beginLogin(in *gwproc.Inst, path string) (state string, r webResp, err error) {
	r, err = b.get(in, path)
	if err != nil {
		return "", r, err
	}
	if r.Code != http.StatusFound {
		return "", r, nil
	}
	return idp.StateFromRedirect(r.Header.Get("Location")), r, nil
}

// callback performs the redirect back from the IdP with the given state and code.
func (b *browser) callback(in *gwproc.Inst, state, code string) (webResp, error) {
	return b.get(in, "/callback?state="+url.QueryEscape(state)+"&code="+url.QueryEscape(code))
}

// login runs the whole flow for spec and returns the last response (302 back to the original URL on success).
func (b *browser) login(in *gwproc.Inst, spec idp.CodeSpec) (webResp, string, error) {
	state, r, err := b.beginLogin(in, "/connect")
	if err != nil || state == "" {
		return r, "", err
	}
	code := W().IdP.NewCode(spec)
	r, err = b.callback(in, state, code)
	return r, code, err
}

// parseRDP parses a connection file with the harness's own line grammar.
func parseRDP(body string) (map[string]interface{}, bool) {
	return refParse([]byte(body))
}

func rdpString(m map[string]interface{}, k string) string {
	s, _ := m[k].(string)
	return s
}

var _ = strings.Contains
