package props

import (
	"log"
	"os"
	"strings"
	"sync"
	"time"

	"github.com/bolkedebruin/rdpgw/cmd/rdpgw/protocol"

	"verif/harness/lab/gwc"
	"verif/harness/lab/inproc"
)

var (
	inpOnce sync.Once
	inpSrv  *inproc.Server
)

// inp returns the per-process in-process gateway.
func inp() *inproc.Server {
	inpOnce.Do(func() { inpSrv = inproc.Start() })
	return inpSrv
}

func inpTarget(hdr ...[2]string) gwc.Target {
	return gwc.Target{Addr: inp().Addr, Headers: hdr}
}

// withGateway installs gw for one case and, afterwards, waits for every handler to finish and reports a
// handler panic as a violation of whatever property is being checked (and of C10 by definition).
func withGateway(gw *protocol.Gateway, f func() *Violation) *Violation {
	s := inp()
	s.TakePanics()
	s.SetGateway(gw)
	v := f()
	idle := s.WaitIdle(5 * time.Second)
	if p := s.TakePanics(); p != "" {
		return viol("panic/"+panicSite(p), "handler panic: %s", p)
	}
	if v != nil {
		return v
	}
	_ = idle
	return nil
}

func getenv(k string) string { return os.Getenv(k) }

type lockedWriter struct {
	mu sync.Mutex
	b  strings.Builder
}

func (l *lockedWriter) Write(p []byte) (int, error) {
	l.mu.Lock()
	defer l.mu.Unlock()
	return l.b.Write(p)
}
func (l *lockedWriter) String() string      { l.mu.Lock(); defer l.mu.Unlock(); return l.b.String() }
func newLogger(w *lockedWriter) *log.Logger { return log.New(w, "", 0) }
