package props

import (
	"bytes"
	"encoding/json"
	"fmt"
	"strings"
	"sync"
	"testing"
	"time"

	"pgregory.net/rapid"

	"verif/harness/lab/backend"
	"verif/harness/lab/gwc"
	"verif/harness/lab/gwproc"
	"verif/harness/lab/sess"
	"verif/harness/lab/tsgu"
)

// C09 — no data races or interleaved writes under concurrent use.
// Workload programs run against a -race build of the real binary; the oracle is the race detector's report on
// the instance's stderr, runtime faults, and strict framing of everything the clients received.

type c09Client struct {
	Kind    string   `json:"transport"`
	StartMs int      `json:"start_offset_ms"`
	Ops     []string `json:"ops"` // data | host | ka | unk | close | ooo | fin | rst  (close/ooo/fin/rst end the script)
	StallS   int     `json:"stops_reading_for_s,omitempty"` // websocket: after set-up the client does not read for that long while its host keeps sending
	ReuseID  bool    `json:"reuses_connection_id,omitempty"` // websocket (and at most one legacy tunnel per case): the client presents the Rdg-Connection-Id another of its tunnels (same user, same case) is using
	SimulIn  int     `json:"simultaneous_in,omitempty"` // legacy: that many RDG_IN_DATA requests with the same connection id are sent at the same moment (a client or proxy that retries at once); one of them becomes the tunnel's
	SecondIn bool    `json:"second_in_early,omitempty"` // legacy: RDG_IN_DATA is retried with the same connection id before the first one sent its preamble
}

type c09Case struct {
	Opts       gwOpts      `json:"gateway"`
	GoMaxProcs int         `json:"gomaxprocs"`
	Clients    []c09Client `json:"clients"`
}

func genC09(t *rapid.T) c09Case {
	o := genC01Opts(t)
	if rapid.IntRange(0, 2).Draw(t, "negIdle") == 0 {
		o.IdleTimeout = -rapid.IntRange(1, 100).Draw(t, "idle")
	}
	c := c09Case{Opts: o, GoMaxProcs: rapid.SampledFrom([]int{2, 4, 16}).Draw(t, "gomaxprocs")}
	k := rapid.IntRange(2, 12).Draw(t, "clients")
	legacyShares := false
	for i := 0; i < k; i++ {
		cl := c09Client{Kind: genKind(t), StartMs: rapid.IntRange(0, 4).Draw(t, "start")}
		cl.SecondIn = cl.Kind == "legacy" && rapid.IntRange(0, 4).Draw(t, "secondIn") == 0
		if cl.Kind == "legacy" && !cl.SecondIn && rapid.IntRange(0, 3).Draw(t, "simulIn") == 0 {
			cl.SimulIn = rapid.IntRange(2, 8).Draw(t, "simulInN")
		}
		cl.ReuseID = cl.Kind == "ws" && rapid.IntRange(0, 3).Draw(t, "reuseID") == 0
		if cl.Kind == "legacy" && !cl.SecondIn && cl.SimulIn == 0 && !legacyShares && rapid.IntRange(0, 2).Draw(t, "legacyReuseID") == 0 {
			// one legacy tunnel of the case uses the identifier too: websocket requests that present it meet a live cached tunnel
			cl.ReuseID, legacyShares = true, true
		}
		n := rapid.IntRange(0, 6).Draw(t, "nops")
		for j := 0; j < n; j++ {
			cl.Ops = append(cl.Ops, rapid.SampledFrom([]string{"data", "data", "host", "host", "ka", "unk", "ping-while-host-sends"}).Draw(t, "op"))
		}
		cl.Ops = append(cl.Ops, rapid.SampledFrom([]string{"close", "close-while-host-sends", "ooo", "ooo-while-host-sends", "fin", "rst", "fin-while-host-sends"}).Draw(t, "end"))
		c.Clients = append(c.Clients, cl)
	}
	if rapid.IntRange(0, 11).Draw(t, "stalledClient") == 0 {
		for i := range c.Clients {
			if c.Clients[i].Kind == "ws" {
				c.Clients[i].StallS = 6
				break
			}
		}
	}
	return c
}

var (
	raceMu   sync.Mutex
	racePool = map[string]*gwproc.Inst{}
)

func raceInstance(o gwOpts, gomaxprocs int) (*gwproc.Inst, error) {
	kb, _ := json.Marshal(o)
	key := fmt.Sprintf("%s/%d", kb, gomaxprocs)
	raceMu.Lock()
	defer raceMu.Unlock()
	if in := racePool[key]; in != nil {
		if ex, _ := in.Exited(); !ex {
			return in, nil
		}
		delete(racePool, key)
	}
	in, err := gwproc.Start(binConfig(o), gwproc.StartOpts{Bin: gwproc.BinRace(), GoMaxProcs: gomaxprocs, Wait: 30 * time.Second})
	if err != nil {
		return nil, err
	}
	if ex, code := in.Exited(); ex {
		return nil, fmt.Errorf("race-built gateway exited at start-up (%d): %s", code, tail(in.Stderr(), 500))
	}
	if len(racePool) > 6 {
		for k, old := range racePool {
			old.Stop()
			old.Remove()
			delete(racePool, k)
			break
		}
	}
	racePool[key] = in
	return in, nil
}

// findHost locates the backend connection that received tag first.
func findHost(l *backend.Listener, from int, tag []byte, d time.Duration) *backend.Conn {
	deadline := time.Now().Add(d)
	for {
		conns := l.Conns()
		for _, c := range conns[from:] {
			if bytes.HasPrefix(c.Received(), tag) {
				return c
			}
		}
		if time.Now().After(deadline) {
			return nil
		}
		time.Sleep(300 * time.Microsecond)
	}
}

func runC09Client(i int, cl c09Client, o gwOpts, tgt gwc.Target, from int) (err string) {
	w := W()
	cookie := "none"
	if o.TokenAuth {
		cookie = "valid:A"
	}
	setup, _ := render(histCfg{Opts: o, Kind: cl.Kind}, []PktSpec{{K: "hs", Caps: o.serverCaps()}, {K: "tc", Cookie: cookie}, {K: "ta"}, {K: "cc", Host: "A"}}, "127.0.0.1")
	var conn gwc.Conn
	var e error
	if cl.SecondIn && cl.Kind == "legacy" {
		id := sess.NewConnID()
		var l *gwc.Legacy
		if l, e = gwc.OpenOut(tgt, id); e == nil {
			l.HoldPreamble = true
			if e = l.OpenIn(tgt, id); e != nil {
				l.Close()
			} else {
				// the retry: a gateway that serves it too gets the same set-up on it
				if l2, e2 := gwc.OpenInOnlyHeld(tgt, id); l2 != nil {
					if e2 == nil && l2.SendPreamble() == nil {
						l2.Pipeline = true
						for _, u := range setup {
							l2.Send(u)
						}
					}
					defer l2.Close()
				}
				l.SendPreamble()
				conn = l
			}
		}
	} else if cl.SimulIn > 1 && cl.Kind == "legacy" {
		// a few throw-away connection ids first: the more often the requests meet, the more often a missing lock shows
		for r := 0; r < 12; r++ {
			l, won, _ := simulIn(tgt, sess.NewConnID(), cl.SimulIn)
			if l != nil {
				l.Close()
			}
			if won > 1 {
				return fmt.Sprintf("client %d: %d simultaneous RDG_IN_DATA requests for one connection id were all accepted (200): more than one packet loop serves the tunnel", i, won)
			}
		}
		var l *gwc.Legacy
		var won int
		l, won, e = simulIn(tgt, sess.NewConnID(), cl.SimulIn)
		if won > 1 {
			l.Close()
			return fmt.Sprintf("client %d: %d simultaneous RDG_IN_DATA requests for one connection id were all accepted (200): more than one packet loop serves the tunnel", i, won)
		}
		if e == nil {
			l.SendPreamble()
			conn = l
		}
	} else {
		id := sess.NewConnID()
		if cl.ReuseID {
			id = c09SharedID(from)
		}
		conn, e = gwc.Dial(cl.Kind, tgt, id)
	}
	if e != nil {
		return fmt.Sprintf("client %d: transport did not open: %v", i, e)
	}
	defer conn.Close()
	for _, u := range setup {
		conn.Send(u)
	}
	tag := []byte(fmt.Sprintf("client-%02d-%s|", i, sess.NewConnID()))
	conn.Send(tsgu.Data(tag))
	host := findHost(w.L["A"], from, tag, 30*time.Second)
	if lg, ok := conn.(*gwc.Legacy); ok && host == nil && lg.SleepSync && len(conn.Units()) == 0 {
		return "" // the harness could not tell when the gateway had consumed the preamble: the first chunk may have been discarded with it
	}
	if host == nil {
		return fmt.Sprintf("client %d (%s): no backend connection carrying its tag after a valid set-up (%d units received)", i, cl.Kind, len(conn.Units()))
	}
	defer host.Close()
	hostBusy := func() chan struct{} {
		done := make(chan struct{})
		go func() {
			defer close(done)
			chunk := streamBytes(byte(i), 0, 3000)
			for k := 0; k < 400; k++ {
				if host.Write(chunk) != nil {
					return
				}
			}
		}()
		return done
	}
	if ws, ok := conn.(*gwc.WS); ok && cl.StallS > 0 {
		// the client stops reading, the host writes until the gateway takes no more, then nothing moves for a while
		ws.Pause(true)
		chunk := streamBytes(byte(i), 0, 32768)
		for total := 0; total < 64<<20; {
			host.C.SetWriteDeadline(time.Now().Add(250 * time.Millisecond))
			n, err := host.C.Write(chunk)
			total += n
			if err != nil {
				break
			}
		}
		host.C.SetWriteDeadline(time.Time{})
		time.Sleep(time.Duration(cl.StallS)*time.Second + 500*time.Millisecond)
		ws.Pause(false)
	}
	sent := 0
	for _, op := range cl.Ops {
		switch op {
		case "data":
			for k := 0; k < 4; k++ {
				conn.Send(tsgu.Data(streamBytes(byte(i), sent, 1500)))
				sent += 1500
			}
		case "host":
			for k := 0; k < 4; k++ {
				host.Write(streamBytes(byte(i+100), k*2000, 2000))
			}
		case "ka":
			conn.Send(tsgu.Keepalive())
		case "ping-while-host-sends":
			// websocket pings while the relay is writing to the same connection
			if ws, ok := conn.(*gwc.WS); ok {
				busy := hostBusy()
				for k := 0; k < 20; k++ {
					ws.SendPing([]byte{byte(k)})
					time.Sleep(200 * time.Microsecond)
				}
				<-busy
			}
		case "unk":
			conn.Send(tsgu.Packet(0xB, []byte{1, 2, 3}))
		default:
			var busy chan struct{}
			if strings.HasSuffix(op, "-while-host-sends") {
				busy = hostBusy()
				time.Sleep(time.Millisecond)
			}
			switch strings.TrimSuffix(op, "-while-host-sends") {
			case "close":
				conn.Send(tsgu.CloseChannel())
			case "ooo":
				conn.Send(tsgu.Handshake(0, 0, 0, o.serverCaps()))
			case "fin":
				conn.Close()
			case "rst":
				if ws, ok := conn.(*gwc.WS); ok {
					ws.Reset()
				} else {
					conn.(*gwc.Legacy).CloseIn(true)
				}
			}
			if busy != nil {
				<-busy
			}
		}
	}
	// the gateway ends the tunnel (close / ooo) or we did; collect and check framing of everything received
	if cl.Kind == "ws" {
		conn.WaitEOF(10 * time.Second)
	} else {
		conn.WaitInClosed(10 * time.Second)
		conn.(*gwc.Legacy).Settle()
	}
	var pkts [][]byte
	if cl.Kind == "ws" {
		for _, u := range conn.Units() {
			p, rest := tsgu.SplitStream(u)
			if len(p) != 1 || rest != nil {
				return fmt.Sprintf("client %d: a websocket message is not exactly one packet (%d bytes: %x…)", i, len(u), trunc64b(u))
			}
			pkts = append(pkts, p...)
		}
	} else {
		var rest []byte
		pkts, rest = tsgu.SplitStream(conn.Stream())
		last := cl.Ops[len(cl.Ops)-1]
		if len(rest) != 0 && !strings.HasPrefix(last, "fin") && !strings.HasPrefix(last, "rst") {
			return fmt.Sprintf("client %d: the legacy stream does not frame as packets: %d stray bytes %x…", i, len(rest), trunc64b(rest))
		}
	}
	for _, p := range pkts {
		if _, e := tsgu.Decode(p); e != nil {
			return fmt.Sprintf("client %d: malformed packet from the gateway: %v", i, e)
		}
	}
	return ""
}

func trunc64b(b []byte) []byte {
	if len(b) > 32 {
		return b[:32]
	}
	return b
}

func runC09(c c09Case) *Violation {
	o := resolveHosts(c.Opts)
	in, err := raceInstance(o, c.GoMaxProcs)
	if err != nil {
		return viol("bin/start", "%v", err)
	}
	return runWorkload(c, o, in, func() {
		raceMu.Lock()
		for k, v := range racePool {
			if v == in {
				delete(racePool, k)
			}
		}
		raceMu.Unlock()
		in.Stop()
	})
}

// runWorkload runs the clients of a workload program concurrently against an instance and applies the oracle:
// no runtime fault on the instance's stderr, the process alive, every received packet well-formed.
func runWorkload(c c09Case, o gwOpts, in *gwproc.Inst, drop func()) *Violation {
	tgt := gwc.Target{Addr: in.Addr}
	if !o.TokenAuth {
		_, t2, _ := binFor(o, W().User) // only for the header; the pooled normal instance is not used
		tgt.Headers = t2.Headers
	}
	w := W()
	from := w.L["A"].Accepts()
	var wg sync.WaitGroup
	errs := make([]string, len(c.Clients))
	start := make(chan struct{})
	for i, cl := range c.Clients {
		wg.Add(1)
		go func(i int, cl c09Client) {
			defer wg.Done()
			<-start
			time.Sleep(time.Duration(cl.StartMs) * time.Millisecond)
			errs[i] = runC09Client(i, cl, o, tgt, from)
		}(i, cl)
	}
	close(start)
	wg.Wait()
	w.L["A"].CloseConns()
	time.Sleep(20 * time.Millisecond) // let the instance flush a report it may be writing
	if f := in.Faults(); f != "" {
		drop()
		sig := "c09/fault/" + panicSite(f)
		if strings.Contains(f, "DATA RACE") {
			sig = "c09/data-race/" + raceSite(f)
		} else if strings.Contains(f, "concurrent write to websocket") {
			sig = "c09/concurrent-write"
		} else if strings.Contains(f, "concurrent map") {
			sig = "c09/concurrent-map"
		}
		return viol(sig, "the race-built gateway reported:\n%s", f)
	}
	for _, e := range errs {
		if e != "" {
			return viol("c09/client", "%s", e)
		}
	}
	if ex, code := in.Exited(); ex {
		drop()
		return viol("bin/exited", "gateway exited with %d: %s", code, tail(in.Stderr(), 600))
	}
	return nil
}

// C10_TRAFFIC: the same workload programs against the ordinary build: protocol errors, closes and disconnects while
// the host is sending must not take the process down.
func TestC10_TRAFFIC(t *testing.T) {
	runProp(t, "C10_TRAFFIC", genC09, func(c c09Case) (bool, []string) {
		return len(c.Clients) >= 1, []string{fmt.Sprintf("clients=%d", len(c.Clients))}
	}, func(c c09Case) *Violation {
		o := resolveHosts(c.Opts)
		in, _, err := binFor(o, W().User)
		if err != nil {
			return viol("bin/start", "%v", err)
		}
		if v := runWorkload(c, o, in, func() { dropBin(in) }); v != nil {
			return v
		}
		return binHealth(in)
	})
}

// raceSite names the first repository function in a race report.
func raceSite(report string) string {
	for _, ln := range strings.Split(report, "\n") {
		ln = strings.TrimSpace(ln)
		if strings.HasPrefix(ln, "github.com/bolkedebruin/rdpgw/") {
			if i := strings.Index(ln, "("); i > 0 && !strings.HasPrefix(ln[i:], "(*") {
				ln = ln[:i]
			}
			ln = strings.TrimSuffix(strings.TrimPrefix(ln, "github.com/bolkedebruin/rdpgw/"), "()")
			return ln
		}
	}
	return "unknown"
}

func TestC09_RACE(t *testing.T) {
	runProp(t, "C09_RACE", genC09, func(c c09Case) (bool, []string) {
		cl := []string{fmt.Sprintf("clients=%d", len(c.Clients)), fmt.Sprintf("gomaxprocs=%d", c.GoMaxProcs)}
		nt := len(c.Clients) >= 2
		for _, x := range c.Clients {
			cl = append(cl, "end="+x.Ops[len(x.Ops)-1], "kind="+x.Kind)
		}
		if c.Opts.IdleTimeout < 0 {
			cl = append(cl, "negative-idle-timeout")
		}
		return nt, cl
	}, runC09)
}

// simulIn opens RDG_OUT_DATA and then n RDG_IN_DATA requests for the same connection id at the same moment; the one
// that is accepted becomes the IN side of the returned connection (its preamble still to be sent).
func simulIn(tgt gwc.Target, id string, n int) (l *gwc.Legacy, won int, e error) {
	if l, e = gwc.OpenOut(tgt, id); e != nil {
		return nil, 0, e
	}
	ins := make([]*gwc.Legacy, n)
	errs := make([]error, n)
	var wg sync.WaitGroup
	start := make(chan struct{})
	for k := range ins {
		wg.Add(1)
		go func(k int) {
			defer wg.Done()
			<-start
			ins[k], errs[k] = gwc.OpenInOnlyHeld(tgt, id)
		}(k)
	}
	close(start)
	wg.Wait()
	for k := range ins {
		if errs[k] == nil && ins[k] != nil {
			won++
			if won == 1 {
				l.AdoptIn(ins[k])
			}
		}
		if ins[k] != nil {
			ins[k].Close()
		}
	}
	if won == 0 {
		l.Close()
		return nil, 0, fmt.Errorf("none of %d simultaneous RDG_IN_DATA requests was accepted: %v", n, errs)
	}
	return l, won, nil
}

// c09SharedID: one connection identifier per case (the accept-log position at its start tells the cases apart).
func c09SharedID(from int) string {
	return fmt.Sprintf("{5ba4ed00-0000-4000-8000-%012x}", from)
}
