package props

import (
	"strings"
	"context"
	"fmt"
	"net"
	"strconv"
	"sync"
	"time"

	"github.com/bolkedebruin/rdpgw/cmd/rdpgw/protocol"
	"github.com/bolkedebruin/rdpgw/cmd/rdpgw/security"
	"github.com/coreos/go-oidc/v3/oidc"
	"golang.org/x/oauth2"

	"verif/harness/lab/backend"
	"verif/harness/lab/idp"
	"verif/harness/lab/jwx"
)

// world: the harness-owned peers of one test process.
type world struct {
	L     map[string]*backend.Listener // A, B: hosts on the configured list; D: decoy not on any list
	CAddr string                       // a listed host whose port is closed
	IdP   *idp.IdP
	Key   []byte
	User  string
}

var (
	worldOnce sync.Once
	theW      *world
)

const testSigningKey = "thisisasigningkeyof32characters!"

func W() *world {
	worldOnce.Do(func() {
		w := &world{L: map[string]*backend.Listener{}, Key: []byte(testSigningKey), User: "alice"}
		w.L["A"] = backend.MustListen("127.0.0.1:0")
		w.L["B"] = backend.MustListen("127.0.0.2:0")
		w.L["D"] = backend.MustListen("127.0.0.1:0")
		p, _ := backend.Reserve("127.0.0.1")
		w.CAddr = net.JoinHostPort("127.0.0.1", strconv.Itoa(p))
		w.IdP = idp.New(idp.Options{})
		prov, err := oidc.NewProvider(context.Background(), w.IdP.URL)
		if err != nil {
			panic(err)
		}
		security.OIDCProvider = prov
		security.Oauth2Config = oauth2.Config{ClientID: w.IdP.ClientID, ClientSecret: w.IdP.ClientSecret, Endpoint: prov.Endpoint()}
		theW = w
	})
	return theW
}

func (w *world) addr(label string) string {
	if label == "C" {
		return w.CAddr
	}
	return w.L[label].Addr
}

func splitHP(hp string) (string, uint16) {
	h, p, _ := net.SplitHostPort(hp)
	n, _ := strconv.Atoi(p)
	return h, uint16(n)
}

type snapshot map[string]int

func (w *world) snap() snapshot {
	s := snapshot{}
	for l, ls := range w.L {
		s[l] = ls.Accepts()
	}
	return s
}

// observe returns, per listener, the connections accepted since the snapshot and the bytes they received;
// the connections are then closed.
//
// minAccepts: the number of successful channel responses the client saw. The gateway answers success only after
// its connect() returned, but the listener side may see the connection a moment later (the final ACK of the
// handshake is processed asynchronously), so wait until that many connections have shown up.
func (w *world) observe(s snapshot, minAccepts int) (map[string]int, map[string][]byte) {
	if minAccepts > 0 {
		deadline := time.Now().Add(3 * time.Second)
		for {
			n := 0
			for l, ls := range w.L {
				n += ls.Accepts() - s[l]
			}
			if n >= minAccepts || time.Now().After(deadline) {
				break
			}
			time.Sleep(100 * time.Microsecond)
		}
	}
	acc := map[string]int{}
	by := map[string][]byte{}
	for l, ls := range w.L {
		conns := ls.Conns()[s[l]:]
		acc[l] = len(conns)
		for _, c := range conns {
			// the client side is gone by now, so the gateway closes this connection: what arrived before its end is all
			// there is (a quiet moment alone proves nothing on a busy machine)
			if !c.WaitEOF(3 * time.Second) {
				c.Settle()
			}
			by[l] = append(by[l], c.Received()...)
			c.Close()
		}
	}
	return acc, by
}

// gwOpts describes a gateway configuration in the terms of main.go's wiring.
type gwOpts struct {
	TokenAuth     bool     `json:"token_auth"`
	SmartCard     bool     `json:"smartcard_auth"`
	HostSelection string   `json:"host_selection"`
	Hosts         []string `json:"hosts"`
	VerifyIP      bool     `json:"verify_client_ip"`
	ClientNames   bool     `json:"client_name_policy,omitempty"` // in-process only: the gateway is given a client-name policy that refuses names starting with "bad"
	Redirect      protocol.RedirectFlags
	IdleTimeout   int `json:"idle_timeout"`
	TLS           bool `json:"tls,omitempty"` // BIN only: serve TLS with a run-time certificate
	SendBuf       int `json:"send_buf,omitempty"`
	ReceiveBuf    int `json:"receive_buf,omitempty"`
}

// mkGateway sets the security globals and builds the Gateway exactly as cmd/rdpgw/main.go does.
func mkGateway(o gwOpts) *protocol.Gateway {
	w := W()
	security.VerifyClientIP = o.VerifyIP
	security.SigningKey = w.Key
	security.HostSelection = o.HostSelection
	security.Hosts = o.Hosts
	gw := &protocol.Gateway{
		RedirectFlags: o.Redirect, IdleTimeout: o.IdleTimeout, SmartCardAuth: o.SmartCard, TokenAuth: o.TokenAuth,
		ReceiveBuf: o.ReceiveBuf, SendBuf: o.SendBuf,
	}
	if o.ClientNames {
		gw.CheckClientName = func(_ context.Context, name string) (bool, error) { return !strings.HasPrefix(name, "bad"), nil }
	}
	if o.TokenAuth {
		gw.CheckPAACookie = security.CheckPAACookie
		gw.CheckHost = security.CheckSession(security.CheckHost)
	} else {
		gw.CheckHost = security.CheckHost
	}
	return gw
}

func (o gwOpts) serverCaps() uint16 {
	var c uint16
	if o.SmartCard {
		c |= 1
	}
	if o.TokenAuth {
		c |= 2
	}
	return c
}

// cookieClaims builds the claims of a gateway access token.
func cookieClaims(host, clientIP, accessToken, sub string, exp time.Time) map[string]any {
	return map[string]any{"iss": "rdpgw", "exp": exp.Unix(), "sub": sub,
		"remoteServer": host, "clientIp": clientIP, "accessToken": accessToken}
}

// mintCookie returns a cookie of the symbolic kind and whether the reference verifier accepts it.
// kinds: valid:<label>  expired:<label>  wrongkey:<label>  revoked:<label>  garbage  empty  none
func (w *world) mintCookie(kind string, clientIP string) (cookie string, withField bool, ok bool, tokenHost string) {
	var label string
	k := kind
	if i := indexByte(kind, ':'); i >= 0 {
		k, label = kind[:i], kind[i+1:]
	}
	switch k {
	case "none":
		return "", false, false, ""
	case "empty":
		return "", true, false, ""
	case "garbage":
		return "not.a.token", true, false, ""
	}
	host := w.addr(label)
	at := w.IdP.NewAccessToken("ok:" + w.User)
	exp := time.Now().Add(4 * time.Minute)
	key := w.Key
	ok = true
	switch k {
	case "expired":
		exp = time.Now().Add(-10 * time.Minute)
		ok = false
	case "wrongkey":
		key = []byte("another-signing-key-of-32-chars!")
		ok = false
	case "revoked":
		w.IdP.SetAccessToken(at, "401")
		ok = false
	case "valid":
	default:
		panic("cookie kind " + kind)
	}
	return jwx.MintHS256(cookieClaims(host, clientIP, at, w.User, exp), key), true, ok, host
}

func indexByte(s string, c byte) int {
	for i := 0; i < len(s); i++ {
		if s[i] == c {
			return i
		}
	}
	return -1
}

var _ = fmt.Sprintf
