package props

import (
	"net/http"
	"net/url"
	"bufio"
	"encoding/base64"
	"encoding/json"
	"fmt"
	"io"
	"net"
	"strconv"
	"strings"
	"sync"
	"testing"
	"time"

	authconfig "github.com/bolkedebruin/rdpgw/cmd/auth/config"
	"github.com/bolkedebruin/rdpgw/cmd/auth/database"
	"github.com/bolkedebruin/rdpgw/cmd/auth/ntlm"
	"pgregory.net/rapid"

	"verif/harness/lab/authsvc"
	"verif/harness/lab/gwc"
	"verif/harness/lab/gwproc"
	"verif/harness/lab/idp"
	"verif/harness/lab/ntlmx"
	"verif/harness/lab/sess"
	"verif/harness/lab/tsgu"
)

// C05 — the gateway endpoint needs confirmed credentials of an enabled scheme.

type c05Req struct {
	Transport string `json:"transport"` // ws | legacy
	Method    string `json:"method"`    // RDG_OUT_DATA | GET | POST | RDG_IN_DATA | BREW
	Auth      string `json:"authorization"`
	User      string `json:"user"` // "1".."9"
	Probe     string `json:"host_probe"` // after a successful upgrade: own | other (channel request to the user's own / another user's host)
	ConnID    string `json:"connection_id,omitempty"` // "" = fresh; otherwise an identifier that earlier (finished) requests of this case used, too
}

type c05Case struct {
	Subset []string `json:"authentication"`
	Reqs   []c05Req `json:"requests"`
}

var c05Subsets = [][]string{{"local"}, {"ntlm"}, {"kerberos"}, {"openid", "local"}, {"openid", "ntlm"}, {"openid", "kerberos"}, {"local", "ntlm"}, {"local", "kerberos"},
	{"openid", "local", "ntlm"}, {"openid", "local", "kerberos"},
	{"basic"}, {"openid", "basic"}} // "basic" is the other spelling of the local mechanism

var c05Auths = []string{"absent", "empty", "bare:NTLM", "bare:Negotiate", "bare:Basic", "short:NTL", "short:Basi", "short:Negotiat", "lower:ntlm", "lower:basic", "junk", "bearer",
	"basic-right", "basic-right", "basic-right-scheme-name-inside", "basic-wrong-pass", "basic-unknown-user", "basic-empty-pass", "basic-undecodable", "basic-nocolon", "basic-two-lines-junk-first", "basic-two-lines-right-first",
	"ntlm-right", "ntlm-right", "ntlm-wrong-pass", "ntlm-unknown-user", "ntlm-type3-first", "ntlm-type3-other-conn", "ntlm-again-after-success", "ntlm-again-after-success", "ntlm-unknown-user-empty-pass", "in-for-another-users-out", "in-for-another-users-out", "ntlm-unfinished-with-web-session", "ntlm-unfinished-with-web-session", "ntlm-type1-only", "ntlm-garbage", "negotiate-ntlm-right", "negotiate-garbage", "xNTLM-prefix", "krb-valid", "krb-valid", "krb-foreign-key"}

func genC05(t *rapid.T) c05Case {
	c := c05Case{Subset: rapid.SampledFrom(c05Subsets).Draw(t, "subset")}
	for i, n := 0, rapid.IntRange(1, 8).Draw(t, "nreq"); i < n; i++ {
		r := c05Req{Transport: genKind(t), Method: "RDG_OUT_DATA", Auth: rapid.SampledFrom(c05Auths).Draw(t, "auth"), User: strconv.Itoa(rapid.IntRange(1, 9).Draw(t, "user")),
			Probe: rapid.SampledFrom([]string{"own", "other"}).Draw(t, "probe")}
		if r.Auth == "basic-right-scheme-name-inside" {
			r.User = "9"
		}
		if rapid.IntRange(0, 2).Draw(t, "reuseID") == 0 {
			r.ConnID = "{11111111-2222-3333-4444-555555555555}"
		}
		if rapid.IntRange(0, 5).Draw(t, "otherMethod") == 0 {
			r.Method = rapid.SampledFrom([]string{"GET", "POST", "RDG_IN_DATA", "BREW"}).Draw(t, "method")
		}
		c.Reqs = append(c.Reqs, r)
	}
	return c
}

var (
	c05Once sync.Once
	c05Svc  *authsvc.Service
	c05Mu   sync.Mutex
	c05Pool = map[string]*gwproc.Inst{}
)

// user 9's password makes the base64 text of its Basic credentials ("OTphYmNTLMOp") contain the name of another scheme
func c05Password(user string) string {
	if user == "9" {
		return "abcS,\u00e9"
	}
	return "pw-" + user
}

func c05Auth() *authsvc.Service {
	c05Once.Do(func() {
		users := map[string]string{}
		var ucfg []authconfig.UserConfig
		for k := 1; k <= 9; k++ {
			u := strconv.Itoa(k)
			users[u] = c05Password(u)
			ucfg = append(ucfg, authconfig.UserConfig{Username: u, Password: c05Password(u)})
		}
		s, err := authsvc.Start(gwproc.WorkDir(), users)
		if err != nil {
			panic(err)
		}
		s.NTLMDelegate = ntlm.NewNTLMAuth(database.NewConfig(ucfg)).Authenticate // the repository's real verifier
		c05Svc = s
	})
	return c05Svc
}

func c05Instance(subset []string) (*gwproc.Inst, error) {
	c18Files()
	key := strings.Join(subset, "+")
	c05Mu.Lock()
	defer c05Mu.Unlock()
	if in := c05Pool[key]; in != nil {
		if ex, _ := in.Exited(); !ex {
			return in, nil
		}
	}
	w := W()
	cfg := gwproc.Config{}
	cfg.Set("Server", "GatewayAddress", "gw.example.test").Set("Server", "Authentication", subset).Set("Server", "AuthSocket", c05Auth().Socket).
		Set("Server", "Hosts", []string{"127.0.0." + placeholder + ":" + strconv.Itoa(theGrid().P)}).Set("Server", "HostSelection", "roundrobin").
		Set("Server", "SessionKey", key32a).Set("Server", "SessionEncryptionKey", key32b).
		Set("Server", "CertFile", c18Cert).Set("Server", "KeyFile", c18Key)
	if !has(subset, "local") && !has(subset, "basic") {
		cfg.Set("Server", "Tls", "disable")
	}
	if has(subset, "openid") {
		cfg.Set("OpenId", "ProviderUrl", w.IdP.URL).Set("OpenId", "ClientId", w.IdP.ClientID).Set("OpenId", "ClientSecret", w.IdP.ClientSecret)
		cfg.Set("Caps", "TokenAuth", true)
	} else {
		cfg.Set("Caps", "TokenAuth", false)
	}
	if has(subset, "kerberos") {
		cfg.Set("Kerberos", "Keytab", c18Ktab).Set("Kerberos", "Krb5Conf", c18Krb5)
	}
	cfg.Set("Security", "PAATokenSigningKey", testSigningKey)
	in, err := gwproc.Start(cfg, gwproc.StartOpts{})
	if err != nil {
		return nil, err
	}
	if ex, code := in.Exited(); ex {
		return nil, fmt.Errorf("instance for %v exited with %d: %s", subset, code, tail(in.Stderr(), 500))
	}
	c05Pool[key] = in
	return in, nil
}

type httpHead struct {
	Code int
	Hdr  map[string][]string
}

// rawExchange sends the requests one after the other on one connection and returns the response heads.
// After a 101 or a legacy 200 the connection is returned open (conn != nil).
var c05ConnID string // identifier for the requests of the case being run ("" = fresh one per request)

func c05ID() string {
	if c05ConnID != "" {
		return c05ConnID
	}
	return sess.NewConnID()
}

func rawExchange(in *gwproc.Inst, method string, ws bool, auths [][]string) (heads []httpHead, conn net.Conn, br *bufio.Reader, seedOK bool, err error) {
	c, err := gwc.Target{Addr: in.Addr, TLS: in.TLS}.Dial()
	if err != nil {
		return nil, nil, nil, false, err
	}
	br = bufio.NewReader(c)
	for _, a := range auths {
		var sb strings.Builder
		fmt.Fprintf(&sb, "%s %s HTTP/1.1\r\nHost: %s\r\nRdg-Connection-Id: %s\r\n", method, gwc.GatewayPath, in.Addr, c05ID())
		if ws {
			sb.WriteString("Connection: Upgrade\r\nUpgrade: websocket\r\nSec-WebSocket-Version: 13\r\nSec-WebSocket-Key: dGhlIHNhbXBsZSBub25jZQ==\r\n")
		}
		for _, line := range a {
			fmt.Fprintf(&sb, "Authorization: %s\r\n", line)
		}
		sb.WriteString("\r\n")
		c.SetDeadline(time.Now().Add(10 * time.Second))
		if _, err = c.Write([]byte(sb.String())); err != nil {
			c.Close()
			return heads, nil, nil, false, err
		}
		code, hdr, herr := readHead(br)
		if herr != nil {
			c.Close()
			return heads, nil, nil, false, herr
		}
		heads = append(heads, httpHead{code, hdr})
		if code == 101 {
			return heads, c, br, false, nil
		}
		if code == 200 && method == "RDG_OUT_DATA" && !ws {
			seed := make([]byte, 10)
			_, serr := io.ReadFull(br, seed)
			return heads, c, br, serr == nil, nil
		}
		// read the body to reuse the connection
		if cl := hdr["content-length"]; len(cl) > 0 {
			n, _ := strconv.Atoi(cl[0])
			io.CopyN(io.Discard, br, int64(n))
		} else if code != 204 && code != 304 {
			c.Close()
			return heads, nil, nil, false, nil
		}
		if cn := hdr["connection"]; len(cn) > 0 && strings.EqualFold(cn[0], "close") {
			c.Close()
			return heads, nil, nil, false, nil
		}
	}
	c.Close()
	return heads, nil, nil, false, nil
}

func readHead(br *bufio.Reader) (int, map[string][]string, error) {
	line, err := br.ReadString('\n')
	if err != nil {
		return 0, nil, err
	}
	f := strings.SplitN(strings.TrimSpace(line), " ", 3)
	if len(f) < 2 {
		return 0, nil, fmt.Errorf("bad status line %q", line)
	}
	code, _ := strconv.Atoi(f[1])
	hdr := map[string][]string{}
	for {
		l, err := br.ReadString('\n')
		if err != nil {
			return code, hdr, err
		}
		l = strings.TrimRight(l, "\r\n")
		if l == "" {
			return code, hdr, nil
		}
		if i := strings.IndexByte(l, ':'); i > 0 {
			k := strings.ToLower(strings.TrimSpace(l[:i]))
			hdr[k] = append(hdr[k], strings.TrimSpace(l[i+1:]))
		}
	}
}

func basicHeader(u, p string) string {
	return "Basic " + base64.StdEncoding.EncodeToString([]byte(u+":"+p))
}

func ntlmType3(prefix, challengeHeader []string, user, pass string) string {
	// find the challenge in the WWW-Authenticate headers
	for _, h := range challengeHeader {
		for _, pf := range prefix {
			if strings.HasPrefix(h, pf+" ") {
				raw, err := base64.StdEncoding.DecodeString(strings.TrimPrefix(h, pf+" "))
				if err != nil {
					continue
				}
				ch, err := ntlmx.ParseChallenge(raw)
				if err != nil {
					continue
				}
				msg, _, _ := ntlmx.Authenticate(ntlmx.AuthSpec{User: user, Domain: "", Workstation: "WS", Key: ntlmx.NTOWFv2(pass, user, ""),
					ServerChallenge: ch.ServerChallenge, TargetInfo: ch.TargetInfo, Timestamp: []byte{0, 0x80, 0x3e, 0xd5, 0xde, 0xb1, 0x9d, 0x01}, ClientChallenge: []byte{1, 2, 3, 4, 5, 6, 7, 8}})
				return pf + " " + base64.StdEncoding.EncodeToString(msg)
			}
		}
	}
	return ""
}

func runC05(c c05Case) *Violation {
	in, err := c05Instance(c.Subset)
	if err != nil {
		return viol("bin/start", "%v", err)
	}
	svc := c05Auth()
	g := theGrid()
	local, ntl, krb, openid := has(c.Subset, "local") || has(c.Subset, "basic"), has(c.Subset, "ntlm"), has(c.Subset, "kerberos"), has(c.Subset, "openid")
	for i, r := range c.Reqs {
		ws := r.Transport == "ws"
		c05ConnID = r.ConnID
		pass := c05Password(r.User)
		type1 := base64.StdEncoding.EncodeToString(ntlmx.Negotiate())
		logBefore := svc.LogLen()
		expectReach := false
		krbValid := false // the request carries a service ticket the harness issued under the gateway's own keytab key
		var heads []httpHead
		var conn net.Conn
		var br *bufio.Reader
		var seedOK bool
		var xerr error
		one := func(lines ...string) {
			heads, conn, br, seedOK, xerr = rawExchange(in, r.Method, ws, [][]string{lines})
		}
		ntlmFlow := func(prefix, user, pw string, firstType3 bool, otherConn bool) {
			if firstType3 {
				fake := &ntlmx.Challenge{ServerChallenge: []byte{9, 9, 9, 9, 9, 9, 9, 9}, TargetInfo: []byte{0, 0, 0, 0}}
				msg, _, _ := ntlmx.Authenticate(ntlmx.AuthSpec{User: user, Key: ntlmx.NTOWFv2(pw, user, ""), ServerChallenge: fake.ServerChallenge, TargetInfo: fake.TargetInfo,
					Timestamp: make([]byte, 8), ClientChallenge: make([]byte, 8), Workstation: "WS"})
				one(prefix + " " + base64.StdEncoding.EncodeToString(msg))
				return
			}
			// request 1: type 1
			h1, c1, _, _, e1 := rawExchange(in, r.Method, ws, [][]string{{prefix + " " + type1}})
			if e1 != nil || len(h1) == 0 {
				heads, xerr = h1, e1
				return
			}
			if c1 != nil { // reached the handler on a bare negotiate message
				heads, conn = h1, c1
				return
			}
			t3 := ntlmType3([]string{prefix}, h1[0].Hdr["www-authenticate"], user, pw)
			if t3 == "" {
				heads = h1
				return
			}
			if otherConn {
				one(t3)
				return
			}
			// same connection: redo both requests on one connection
			hs, c2, b2, s2, e2 := rawExchange2(in, r.Method, ws, prefix+" "+type1, func(ch []string) string { return ntlmType3([]string{prefix}, ch, user, pw) })
			heads, conn, br, seedOK, xerr = hs, c2, b2, s2, e2
		}
		switch r.Auth {
		case "absent":
			one()
		case "empty":
			one("")
		case "bare:NTLM", "bare:Negotiate", "bare:Basic":
			one(strings.TrimPrefix(r.Auth, "bare:"))
		case "short:NTL", "short:Basi", "short:Negotiat":
			one(strings.TrimPrefix(r.Auth, "short:"))
		case "lower:ntlm":
			one("ntlm " + type1)
		case "lower:basic":
			one("basic " + strings.TrimPrefix(basicHeader(r.User, pass), "Basic "))
		case "junk":
			one("\x7f?? what")
		case "bearer":
			one("Bearer abcdef")
		case "basic-right", "basic-right-scheme-name-inside":
			one(basicHeader(r.User, pass))
			expectReach = local
		case "basic-wrong-pass":
			one(basicHeader(r.User, pass+"x"))
		case "basic-unknown-user":
			one(basicHeader("nobody", "pw"))
		case "basic-empty-pass":
			one(basicHeader(r.User, ""))
		case "basic-undecodable":
			one("Basic !!!notbase64!!!")
		case "basic-nocolon":
			one("Basic " + base64.StdEncoding.EncodeToString([]byte(r.User+pass)))
		case "basic-two-lines-junk-first":
			one("Basic junk", basicHeader(r.User, pass))
		case "basic-two-lines-right-first":
			one(basicHeader(r.User, pass), "Basic junk")
			expectReach = local // the first header line is the one HTTP servers use
		case "ntlm-right":
			ntlmFlow("NTLM", r.User, pass, false, false)
			expectReach = ntl
		case "negotiate-ntlm-right":
			ntlmFlow("Negotiate", r.User, pass, false, false)
			expectReach = ntl
		case "ntlm-wrong-pass":
			ntlmFlow("NTLM", r.User, pass+"x", false, false)
		case "ntlm-unknown-user":
			ntlmFlow("NTLM", "nobody", "pw", false, false)
		case "ntlm-unknown-user-empty-pass":
			ntlmFlow("NTLM", rapid_unknownUser(r.User), "", false, false)
		case "ntlm-type3-first":
			ntlmFlow("NTLM", r.User, pass, true, false)
		case "ntlm-type3-other-conn":
			ntlmFlow("NTLM", r.User, pass, false, true)
		case "ntlm-unfinished-with-web-session":
			if v := c05WebSession(in, r, openid && ntl, c.Subset); v != nil {
				return v
			}
			continue
		case "in-for-another-users-out":
			if v := c05ForeignIn(in, r, local, ntl, c.Subset); v != nil {
				return v
			}
			continue
		case "ntlm-again-after-success":
			if v := c05AgainAfterSuccess(in, r, pass, type1, c.Subset); v != nil {
				return v
			}
			continue
		case "ntlm-type1-only":
			one("NTLM " + type1)
		case "ntlm-garbage":
			one("NTLM " + base64.StdEncoding.EncodeToString([]byte("NTLMSSP\x00\x03\x00\x00\x00garbage")))
		case "negotiate-garbage":
			one("Negotiate " + base64.StdEncoding.EncodeToString([]byte("not a spnego token")))
		case "xNTLM-prefix":
			one("xNTLM " + type1)
		case "krb-valid", "krb-foreign-key":
			h, kerr := krbNegotiate(r.User, r.Auth == "krb-foreign-key")
			if kerr != nil {
				return viol("infra", "cannot build a Kerberos token: %v", kerr)
			}
			one(h)
			expectReach = krb && r.Auth == "krb-valid"
			krbValid = krb && r.Auth == "krb-valid"
		}
		if r.Method != "RDG_OUT_DATA" {
			expectReach = false
		}
		desc := fmt.Sprintf("request %d: enabled %v, %s %s, Authorization kind %s (user %s) -> %v (err %v)", i, c.Subset, r.Method, r.Transport, r.Auth, r.User, headCodes(heads), xerr)
		if f := in.Faults(); f != "" {
			c05Mu.Lock()
			delete(c05Pool, strings.Join(c.Subset, "+"))
			c05Mu.Unlock()
			in.Stop()
			return viol("c05/fault/"+panicSite(f), "runtime fault in the gateway: %s\n%s", desc, f)
		}
		reached := conn != nil && (len(heads) > 0 && (heads[len(heads)-1].Code == 101 || (heads[len(heads)-1].Code == 200 && seedOK)))
		if len(heads) == 0 {
			if xerr != nil {
				return viol("c05/no-response", "no HTTP response: %s", desc)
			}
			continue
		}
		last := heads[len(heads)-1]
		// soundness: reaching the handler needs a confirming verdict of the backend for these credentials
		if reached {
			confirmed := false
			for _, e := range svc.Log()[logBefore:] {
				if e.OK && e.Kind == "basic" && local && e.User == r.User && e.Password == pass {
					confirmed = true
				}
				// NTLM: the verdict must belong to the session of this very connection
				if e.OK && e.Kind == "ntlm" && ntl && e.Username == r.User && e.Session == conn.LocalAddr().String() {
					confirmed = true
				}
			}
			if krbValid && !(r.Method != "RDG_OUT_DATA") {
				confirmed = true // Kerberos is validated against the keytab in the gateway itself: the harness-issued ticket is the confirmation
			}
			if !confirmed {
				conn.Close()
				return viol("c05/reached-without-confirmation/"+r.Auth, "the request reached the tunnel handler although the authentication backend confirmed nothing for it: %s", desc)
			}
			// reaching the handler with backend-confirmed credentials is never a violation, even for spellings the
			// reference treats as non-canonical (e.g. the valid header being the second of two lines)
		} else if expectReach {
			return viol("c05/valid-credentials-refused/"+r.Auth, "correct credentials of an enabled scheme did not reach the tunnel handler: %s", desc)
		}
		// challenges
		if r.Auth == "absent" {
			if last.Code != 401 {
				return viol("c05/no-challenge", "a request without Authorization header must be answered 401: %s", desc)
			}
			var got []string
			for _, h := range last.Hdr["www-authenticate"] {
				got = append(got, strings.SplitN(h, " ", 2)[0])
			}
			var want []string
			if ntl {
				want = append(want, "NTLM", "Negotiate")
			}
			if local {
				want = append(want, "Basic")
			}
			if krb {
				want = append(want, "Negotiate")
			}
			if !sameMultiset(got, want) {
				return viol("c05/challenges", "WWW-Authenticate schemes %v, enabled mechanisms call for %v: %s", got, want, desc)
			}
		}
		// user binding: the tunnel's user is the confirmed one
		if reached && !openid && ws && last.Code == 101 {
			target := r.User
			if r.Probe == "other" {
				target = strconv.Itoa(atoi(r.User)%9 + 1)
			}
			marks := g.marks()
			res := probeChannel(conn, br, "127.0.0."+target, g.P)
			acc := g.newAccepts(marks, res)
			if r.Probe == "own" && (res != 1 || len(acc) != 1 || !strings.HasPrefix(acc[0], "127.0.0."+r.User+":")) {
				return viol("c05/user-binding", "confirmed as user %s but the channel to that user's own host was not created (success responses %d, connections %v): %s", r.User, res, acc, desc)
			}
			if r.Probe == "other" && (res != 0 || len(acc) != 0) {
				return viol("c05/user-binding", "confirmed as user %s but a channel to user %s's host was created: %s", r.User, target, desc)
			}
		}
		if conn != nil {
			conn.Close()
		}
	}
	return binHealthQuick(in)
}

// rawExchange2 sends type-1, computes the type-3 from the challenge, and sends it on the same connection.
func rawExchange2(in *gwproc.Inst, method string, ws bool, first string, next func(challenge []string) string) ([]httpHead, net.Conn, *bufio.Reader, bool, error) {
	c, err := gwc.Target{Addr: in.Addr, TLS: in.TLS}.Dial()
	if err != nil {
		return nil, nil, nil, false, err
	}
	br := bufio.NewReader(c)
	var heads []httpHead
	send := func(auth string) (httpHead, error) {
		var sb strings.Builder
		fmt.Fprintf(&sb, "%s %s HTTP/1.1\r\nHost: %s\r\nRdg-Connection-Id: %s\r\n", method, gwc.GatewayPath, in.Addr, c05ID())
		if ws {
			sb.WriteString("Connection: Upgrade\r\nUpgrade: websocket\r\nSec-WebSocket-Version: 13\r\nSec-WebSocket-Key: dGhlIHNhbXBsZSBub25jZQ==\r\n")
		}
		fmt.Fprintf(&sb, "Authorization: %s\r\n\r\n", auth)
		c.SetDeadline(time.Now().Add(10 * time.Second))
		if _, err := c.Write([]byte(sb.String())); err != nil {
			return httpHead{}, err
		}
		code, hdr, err := readHead(br)
		return httpHead{code, hdr}, err
	}
	h, err := send(first)
	if err != nil {
		c.Close()
		return heads, nil, nil, false, err
	}
	heads = append(heads, h)
	if h.Code != 401 {
		c.Close()
		return heads, nil, nil, false, nil
	}
	if cl := h.Hdr["content-length"]; len(cl) > 0 {
		n, _ := strconv.Atoi(cl[0])
		io.CopyN(io.Discard, br, int64(n))
	}
	t3 := next(h.Hdr["www-authenticate"])
	if t3 == "" {
		c.Close()
		return heads, nil, nil, false, nil
	}
	h2, err := send(t3)
	if err != nil {
		c.Close()
		return heads, nil, nil, false, err
	}
	heads = append(heads, h2)
	if h2.Code == 101 {
		return heads, c, br, false, nil
	}
	if h2.Code == 200 && method == "RDG_OUT_DATA" && !ws {
		seed := make([]byte, 10)
		_, serr := io.ReadFull(br, seed)
		return heads, c, br, serr == nil, nil
	}
	c.Close()
	return heads, nil, nil, false, nil
}

// probeChannel runs handshake..channel-create on an upgraded websocket connection and returns the number of
// successful channel responses.
func probeChannel(c net.Conn, br *bufio.Reader, host string, port int) int {
	ws := gwc.AdoptWS(c, br)
	defer ws.Close()
	for _, u := range [][]byte{tsgu.Handshake(1, 0, 0, 0), tsgu.TunnelCreate("", false), tsgu.TunnelAuth("pc"), tsgu.ChannelCreate(host, uint16(port)), tsgu.Handshake(0, 0, 0, 0)} {
		ws.Send(u)
	}
	ws.WaitEOF(10 * time.Second)
	n := 0
	for _, u := range ws.Units() {
		if r, err := tsgu.Decode(u); err == nil && r.Type == tsgu.PktChannelResponse && r.Status == 0 {
			n++
		}
	}
	return n
}

func headCodes(h []httpHead) []int {
	var c []int
	for _, x := range h {
		c = append(c, x.Code)
	}
	return c
}

func sameMultiset(a, b []string) bool {
	if len(a) != len(b) {
		return false
	}
	m := map[string]int{}
	for _, x := range a {
		m[x]++
	}
	for _, x := range b {
		m[x]--
	}
	for _, v := range m {
		if v != 0 {
			return false
		}
	}
	return true
}

func TestC05_BIN(t *testing.T) {
	runProp(t, "C05_BIN", genC05, func(c c05Case) (bool, []string) {
		nt := false
		cl := []string{"subset=" + strings.Join(c.Subset, "+")}
		for _, r := range c.Reqs {
			cl = append(cl, "auth="+r.Auth)
			if r.Auth != "absent" && r.Auth != "junk" && r.Auth != "bearer" {
				nt = true
			}
		}
		return nt, cl
	}, runC05)
}

var _ = json.Marshal

// c05AgainAfterSuccess: on one keep-alive connection a complete NTLM exchange with the right password (on a request
// that is not hijacked, so the connection survives), then a further type-3 message without a new challenge: the
// same message again (Probe "own") or one that names another user but is keyed like the first (Probe "other").
// The further message proves nothing fresh and must be refused.
func c05AgainAfterSuccess(in *gwproc.Inst, r c05Req, pass, type1 string, subset []string) *Violation {
	c, err := gwc.Target{Addr: in.Addr, TLS: in.TLS}.Dial()
	if err != nil {
		return nil
	}
	defer c.Close()
	br := bufio.NewReader(c)
	send := func(auth string) (httpHead, bool) {
		var sb strings.Builder
		fmt.Fprintf(&sb, "RDG_IN_DATA %s HTTP/1.1\r\nHost: %s\r\nRdg-Connection-Id: %s\r\nContent-Length: 0\r\n", gwc.GatewayPath, in.Addr, sess.NewConnID())
		fmt.Fprintf(&sb, "Authorization: %s\r\n\r\n", auth)
		c.SetDeadline(time.Now().Add(10 * time.Second))
		if _, err := c.Write([]byte(sb.String())); err != nil {
			return httpHead{}, false
		}
		code, hdr, err := readHead(br)
		if err != nil {
			return httpHead{}, false
		}
		if cl := hdr["content-length"]; len(cl) > 0 {
			n, _ := strconv.Atoi(cl[0])
			io.CopyN(io.Discard, br, int64(n))
		} else {
			return httpHead{code, hdr}, false // cannot reuse the connection
		}
		return httpHead{code, hdr}, true
	}
	h1, ok := send("NTLM " + type1)
	if !ok || h1.Code != 401 {
		return nil
	}
	chal := h1.Hdr["www-authenticate"]
	t3 := ntlmType3([]string{"NTLM"}, chal, r.User, pass)
	if t3 == "" {
		return nil // NTLM is not offered
	}
	h2, ok := send(t3)
	if !ok || h2.Code == 401 {
		return nil
	}
	again := t3
	what := "the same authenticate message again"
	if r.Probe == "other" {
		other := strconv.Itoa(atoi(r.User)%9 + 1)
		for _, h := range chal {
			if raw, err := base64.StdEncoding.DecodeString(strings.TrimPrefix(h, "NTLM ")); err == nil && strings.HasPrefix(h, "NTLM ") {
				if ch, err := ntlmx.ParseChallenge(raw); err == nil {
					msg, _, _ := ntlmx.Authenticate(ntlmx.AuthSpec{User: other, Workstation: "WS", Key: ntlmx.NTOWFv2(pass, r.User, ""),
						ServerChallenge: ch.ServerChallenge, TargetInfo: ch.TargetInfo, Timestamp: []byte{0, 0x80, 0x3e, 0xd5, 0xde, 0xb1, 0x9d, 0x01}, ClientChallenge: []byte{1, 2, 3, 4, 5, 6, 7, 8}})
					again = "NTLM " + base64.StdEncoding.EncodeToString(msg)
					what = fmt.Sprintf("an authenticate message naming user %s, keyed with the password of user %s", other, r.User)
				}
			}
		}
	}
	h3, ok := send(again)
	// refused means 401 (or the 500 the gateway gives when the verifier reports an error); getting the very
	// answer the authenticated request got means the request passed authentication again
	if h3.Code != 0 && h3.Code != 401 && h3.Code != 500 && h3.Code == h2.Code {
		return viol("c05/ntlm-accepted-without-fresh-challenge", "enabled %v: after a completed NTLM exchange for user %s (answered %d by the tunnel handler), %s on the same connection, without a new challenge, was answered %d as well instead of being refused",
			subset, r.User, h2.Code, what, h3.Code)
	}
	_ = ok
	return nil
}

// rapid_unknownUser names an account the authentication backend does not know (derived from the case's user so that the case stays a pure function of its JSON).
func rapid_unknownUser(u string) string {
	return []string{"administrator", "root", "nobody", "Administrator"}[atoi(u)%4]
}

// ---- concurrent logins: the tunnel's user is the one confirmed for this very request ----

type c05Conc struct {
	Users   []string `json:"users"`    // one websocket request each, all at once, correct passwords
	Wrong   []string `json:"intruders"` // further concurrent requests with a wrong password for these names
	DelayMs int      `json:"backend_delay_ms"`
}

func TestC05_CONC(t *testing.T) {
	runProp(t, "C05_CONC", func(t *rapid.T) c05Conc {
		c := c05Conc{DelayMs: rapid.SampledFrom([]int{0, 1, 3, 10}).Draw(t, "delay")}
		n := rapid.IntRange(2, 8).Draw(t, "n")
		for i := 0; i < n; i++ {
			c.Users = append(c.Users, strconv.Itoa(1+(i+rapid.IntRange(0, 8).Draw(t, "u"))%9))
		}
		for i, m := 0, rapid.IntRange(0, 4).Draw(t, "m"); i < m; i++ {
			c.Wrong = append(c.Wrong, strconv.Itoa(rapid.IntRange(1, 9).Draw(t, "w")))
		}
		return c
	}, func(c c05Conc) (bool, []string) { return true, nil }, func(c c05Conc) *Violation {
		in, err := c05Instance([]string{"local"})
		if err != nil {
			return viol("bin/start", "%v", err)
		}
		svc := c05Auth()
		svc.BasicDelay.Store(int64(c.DelayMs) * int64(time.Millisecond))
		defer svc.BasicDelay.Store(0)
		g := theGrid()
		g.marks()
		errs := make(chan string, len(c.Users)+len(c.Wrong))
		var wg sync.WaitGroup
		start := make(chan struct{})
		for _, u := range c.Wrong {
			wg.Add(1)
			go func(u string) {
				defer wg.Done()
				<-start
				_, conn, _, _, _ := rawExchange(in, "RDG_OUT_DATA", true, [][]string{{basicHeader(u, "not-the-password")}})
				if conn != nil {
					conn.Close()
					errs <- fmt.Sprintf("a wrong password for user %s reached the tunnel handler", u)
				}
			}(u)
		}
		for _, u := range c.Users {
			wg.Add(1)
			go func(u string) {
				defer wg.Done()
				<-start
				heads, conn, br, _, xerr := rawExchange(in, "RDG_OUT_DATA", true, [][]string{{basicHeader(u, c05Password(u))}})
				if conn == nil {
					errs <- fmt.Sprintf("correct credentials of user %s did not reach the tunnel handler: %v %v", u, headCodes(heads), xerr)
					return
				}
				defer conn.Close()
				// the tunnel runs as u: u's own host is reachable ...
				if res := probeChannel(conn, br, "127.0.0."+u, g.P); res != 1 {
					errs <- fmt.Sprintf("confirmed as user %s, but the channel to that user's own host 127.0.0.%s was refused: the tunnel runs under another name", u, u)
				}
			}(u)
		}
		close(start)
		wg.Wait()
		g.marks() // take the connections of this case out of the listeners' accept queues (nobody else does)
		select {
		case e := <-errs:
			return viol("c05/user-binding/concurrent", "%s (%d correct and %d wrong logins at once, backend delay %d ms)", e, len(c.Users), len(c.Wrong), c.DelayMs)
		default:
		}
		return binHealthQuick(in)
	})
}

// c05ForeignIn: another user opens RDG_OUT_DATA (legacy) with correct credentials; then this user, with correct
// credentials of his own, sends RDG_IN_DATA with the same connection identifier. The tunnel belongs to the user the
// backend confirmed for its RDG_OUT_DATA: the request must not be accepted as its second half.
func c05ForeignIn(in *gwproc.Inst, r c05Req, local, ntl bool, subset []string) *Violation {
	if !local && !ntl {
		return nil
	}
	other := strconv.Itoa(atoi(r.User)%9 + 1)
	saved := c05ConnID
	c05ConnID = sess.NewConnID()
	defer func() { c05ConnID = saved }()
	login := func(method, user string) ([]httpHead, net.Conn, bool) {
		if local {
			h, c, _, seed, _ := rawExchange(in, method, false, [][]string{{basicHeader(user, c05Password(user))}})
			return h, c, seed
		}
		type1 := base64.StdEncoding.EncodeToString(ntlmx.Negotiate())
		h, c, _, seed, _ := rawExchange2(in, method, false, "NTLM "+type1, func(ch []string) string { return ntlmType3([]string{"NTLM"}, ch, user, c05Password(user)) })
		return h, c, seed
	}
	_, outConn, seedOK := login("RDG_OUT_DATA", other)
	if outConn == nil || !seedOK {
		return nil // the other user's half did not open: nothing to join
	}
	defer outConn.Close()
	heads, inConn, _ := login("RDG_IN_DATA", r.User)
	if inConn != nil {
		inConn.Close()
	}
	if len(heads) > 0 && heads[len(heads)-1].Code == 200 {
		return viol("c05/joined-another-users-tunnel", "enabled %v: user %s opened RDG_OUT_DATA with identifier %s; RDG_IN_DATA with the same identifier and the (correct) credentials of user %s was accepted (200) as the second half of that tunnel", subset, other, c05ConnID, r.User)
	}
	return nil
}

// c05WebSession: the browser session of the client is logged in through OpenID; a tunnel request that carries that
// session cookie together with an NTLM header that proves nothing (a negotiate message, rubbish, a wrong password)
// has not presented confirmed credentials of an enabled scheme for the tunnel endpoint: it must not reach the handler.
func c05WebSession(in *gwproc.Inst, r c05Req, applicable bool, subset []string) *Violation {
	if !applicable {
		return nil
	}
	b := newBrowser()
	if lr, _, err := b.login(in, idp.CodeSpec{Sub: "web-" + r.User, Username: "web-" + r.User}); err != nil || lr.Code != http.StatusFound {
		return nil // no web session: nothing to probe
	}
	u, _ := url.Parse(in.URL("/"))
	var cks []string
	for _, ck := range b.Jar.Cookies(u) {
		cks = append(cks, ck.Name+"="+ck.Value)
	}
	proofs := []string{"NTLM " + base64.StdEncoding.EncodeToString(ntlmx.Negotiate()), "NTLM " + base64.StdEncoding.EncodeToString([]byte("rubbish")), "Negotiate " + base64.StdEncoding.EncodeToString(ntlmx.Negotiate())}
	auth := proofs[atoi(r.User)%len(proofs)]
	c, err := gwc.Target{Addr: in.Addr, TLS: in.TLS}.Dial()
	if err != nil {
		return nil
	}
	defer c.Close()
	var sb strings.Builder
	fmt.Fprintf(&sb, "RDG_OUT_DATA %s HTTP/1.1\r\nHost: %s\r\nRdg-Connection-Id: %s\r\nConnection: Upgrade\r\nUpgrade: websocket\r\nSec-WebSocket-Version: 13\r\nSec-WebSocket-Key: dGhlIHNhbXBsZSBub25jZQ==\r\n", gwc.GatewayPath, in.Addr, sess.NewConnID())
	fmt.Fprintf(&sb, "Cookie: %s\r\nAuthorization: %s\r\n\r\n", strings.Join(cks, "; "), auth)
	c.SetDeadline(time.Now().Add(10 * time.Second))
	if _, err := c.Write([]byte(sb.String())); err != nil {
		return nil
	}
	// the refusal may be followed on the same connection by what the tunnel handler writes, if it was entered after all
	br := bufio.NewReader(c)
	code, hdr, err := readHead(br)
	for k := 0; k < 2 && err == nil && code != 101; k++ {
		if cl := hdr["content-length"]; len(cl) > 0 {
			n, _ := strconv.Atoi(cl[0])
			io.CopyN(io.Discard, br, int64(n))
		}
		c.SetDeadline(time.Now().Add(500 * time.Millisecond))
		code, hdr, err = readHead(br)
	}
	if err == nil && code == 101 {
		return viol("c05/reached-without-confirmation/web-session", "enabled %v: a tunnel request with the cookie of a logged-in browser session and the header %q (no credentials confirmed) reached the tunnel handler", subset, shorten(auth))
	}
	return nil
}
