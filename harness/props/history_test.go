package props

import (
	"time"
	"strings"
	"errors"
	"fmt"

	"pgregory.net/rapid"

	"verif/harness/lab/gwc"
	"verif/harness/lab/inproc"
	"verif/harness/lab/model"
	"verif/harness/lab/sess"
	"verif/harness/lab/tsgu"
)

// PktSpec is one client packet of a generated history, symbolic where run-time values (ports, tokens) are needed.
type PktSpec struct {
	K       string `json:"k"` // hs tc ta cc data ka close unk
	Caps    uint16 `json:"caps,omitempty"`
	Major   byte   `json:"major,omitempty"`
	Minor   byte   `json:"minor,omitempty"`
	Cookie  string `json:"cookie,omitempty"` // see world.mintCookie
	Host    string `json:"host,omitempty"`   // listener label A B (listed, up)  C (listed, port closed)  D (decoy, not listed)
	Payload []byte `json:"payload,omitempty"`
	Type    uint16 `json:"type,omitempty"`
	Body    []byte `json:"body,omitempty"`
	Name    string `json:"client_name,omitempty"` // ta: computer name ("" = client-pc)
	Mal     string `json:"mal,omitempty"` // "" | trunc | over | extra
	MalN    int    `json:"mal_n,omitempty"`
	Alias   *PktSpec `json:"same_bytes_as,omitempty"` // unk: the bytes of this packet, with the high byte of the 16-bit type set to Hi (an unknown type whose low byte names a known one)
	Hi      byte     `json:"type_high_byte,omitempty"`
}

func (p PktSpec) String() string {
	s := p.K
	switch p.K {
	case "hs":
		s += fmt.Sprintf("(caps=%#x)", p.Caps)
	case "tc":
		s += "(" + p.Cookie + ")"
	case "cc":
		s += "(" + p.Host + ")"
	case "data":
		s += fmt.Sprintf("(%d)", len(p.Payload))
	case "unk":
		s += fmt.Sprintf("(%#x)", p.Type)
		if p.Alias != nil {
			s = fmt.Sprintf("unk(%#x|%s)", int(p.Hi)<<8, p.Alias.String())
		}
	}
	if p.Mal != "" {
		s += fmt.Sprintf("!%s%d", p.Mal, p.MalN)
	}
	return s
}

type histCfg struct {
	Opts gwOpts
	Kind string
}

// hostVerdict is the reference policy for the C01 world: list policy over {A,B,C}, token host must match.
func hostVerdict(o gwOpts, label string, tokenHost string, w *world) string {
	hp := w.addr(label)
	listed := false
	for _, h := range o.Hosts {
		if h == hp {
			listed = true
		}
	}
	if o.TokenAuth && hp != tokenHost {
		return "deny"
	}
	if !listed {
		return "deny"
	}
	if label == "C" {
		return "allow-down"
	}
	return "allow-up"
}

func cutBody(pkt []byte, keep int) []byte {
	body := pkt[8:]
	if keep > len(body) {
		keep = len(body)
	}
	return tsgu.Packet(uint16(pkt[0])|uint16(pkt[1])<<8, body[:keep])
}

// render turns the symbolic history into transport units and model events. tokenHost tracking: the host in
// the most recent well-formed valid cookie sent while the model could be in the Handshaked phase.
func render(cfg histCfg, specs []PktSpec, clientIP string) (units [][]byte, evs []model.Ev) {
	w := W()
	tokenHost := ""
	for _, p := range specs {
		var b []byte
		e := model.Ev{Kind: p.K, WF: p.Mal == ""}
		switch p.K {
		case "hs":
			b = tsgu.Handshake(p.Major, p.Minor, 0, p.Caps)
			s := cfg.Opts.serverCaps()
			e.CapsOK = (s == 0 && p.Caps == 0) || (s&p.Caps != 0)
			e.Major, e.Minor = p.Major, p.Minor
			switch p.Mal {
			case "trunc":
				b = cutBody(b, p.MalN%6)
			case "extra":
				b = tsgu.Packet(tsgu.PktHandshakeRequest, append(b[8:], make([]byte, 1+p.MalN%9)...))
			}
		case "tc":
			cookie, withField, ok, th := w.mintCookie(p.Cookie, clientIP)
			e.CookieOK = ok
			raw := tsgu.UTF16(cookie, true)
			switch p.Mal {
			case "":
				b = tsgu.TunnelCreate(cookie, withField)
				if ok && tokenHost == "" {
					tokenHost = th
				}
			case "trunc":
				full := tsgu.TunnelCreateRaw(0x3f, 1, raw, -1)
				keep := len(full) - 8 - 4 - p.MalN%24
				if keep < 0 {
					keep = 0
				}
				b = cutBody(full, keep)
				e.CookieOK = false
			case "over":
				b = tsgu.TunnelCreateRaw(0x3f, 1, raw, len(raw)+4+2*(p.MalN%40))
				if ok && tokenHost == "" {
					tokenHost = th // should the gateway accept it, this is the token it accepted
				}
			}
		case "ta":
			cname := "client-pc"
			if p.Name != "" {
				cname = p.Name
			}
			e.NameDenied = cfg.Opts.ClientNames && strings.HasPrefix(cname, "bad")
			b = tsgu.TunnelAuth(cname)
			switch p.Mal {
			case "trunc":
				b = cutBody(b, p.MalN%len(b[8:]))
			case "over":
				n := tsgu.UTF16(cname, true)
				b = tsgu.TunnelAuthRaw(n, len(n)+2+p.MalN%64)
			case "extra":
				b = tsgu.Packet(tsgu.PktTunnelAuth, append(b[8:], make([]byte, 1+p.MalN%9)...))
			case "odd": // an odd number of name bytes (e.g. the terminator counted as one byte); the name ends the packet
				b = tsgu.TunnelAuthRaw(append(tsgu.UTF16(cname, false), 0), -1)
			}
		case "cc":
			h, port := splitHP(w.addr(p.Host))
			e.Host = hostVerdict(cfg.Opts, p.Host, tokenHost, w)
			e.Listener = p.Host
			b = tsgu.ChannelCreate(h, port)
			switch p.Mal {
			case "trunc":
				keep := len(b) - 8 - 4 - p.MalN%8
				b = cutBody(b, keep)
			case "over":
				n := tsgu.UTF16(h, true)
				b = tsgu.ChannelCreateRaw(1, 0, port, 3, n, len(n)+4+2*(p.MalN%30))
			}
		case "data":
			b = tsgu.Data(p.Payload)
			e.Payload = p.Payload
			if p.Mal == "over" { // the inner length field announces more payload than the packet carries
				b = tsgu.DataRaw(p.Payload, len(p.Payload)+1+p.MalN%600)
			}
		case "ka":
			b = tsgu.Keepalive()
		case "close":
			b = tsgu.CloseChannel()
		case "unk":
			b = tsgu.Packet(p.Type, p.Body)
			if p.Alias != nil && p.Hi != 0 {
				au, _ := render(cfg, []PktSpec{*p.Alias}, clientIP)
				b = append([]byte(nil), au[0]...)
				b[1] = p.Hi
			}
			e.Kind = "unknown"
		}
		units = append(units, b)
		evs = append(evs, e)
	}
	return
}

var unknownTypes = []uint16{0x0, 0x2, 0x3, 0x5, 0x7, 0x9, 0xB, 0xC, 0xE, 0xF, 0x11, 0x12, 0xFF, 0x100, 0xFFFF}

func genPayload(t *rapid.T, label string, max int) []byte {
	n := rapid.IntRange(0, max).Draw(t, label+"Len")
	seed := rapid.Byte().Draw(t, label+"Seed")
	b := make([]byte, n)
	for i := range b {
		b[i] = seed + byte(i*7)
	}
	return b
}

// genHistory draws a phase-aware packet history: with probability ~0.6 the next packet advances the
// predicted phase, otherwise it is a repeat, a skip, a later step, a data/keep-alive/close at the wrong time,
// an unknown type or a malformed body. Two handshake requests terminate every history (refused in every
// phase but the first), preceded by 0-3 probes sent after a predicted end.
func genHistory(t *rapid.T, o gwOpts) []PktSpec {
	goodCaps := func() uint16 {
		s := o.serverCaps()
		if s == 0 {
			return 0
		}
		// any value sharing at least one bit with the server: the full set, or only one of the server's mechanisms
		m := s
		if s == 3 {
			m = uint16(rapid.IntRange(1, 3).Draw(t, "capsSubset"))
		}
		return m | uint16(rapid.IntRange(0, 3).Draw(t, "extraCaps"))<<2
	}
	cookies := []string{"valid:A", "valid:A", "valid:B", "valid:C", "expired:A", "wrongkey:A", "revoked:A", "garbage", "empty", "none"}
	hosts := []string{"A", "A", "B", "C", "D"}
	mk := func(k string) PktSpec {
		p := PktSpec{K: k}
		switch k {
		case "hs":
			p.Major, p.Minor = rapid.Byte().Draw(t, "major"), rapid.Byte().Draw(t, "minor")
			if rapid.IntRange(0, 9).Draw(t, "capsGood") < 8 {
				p.Caps = goodCaps()
			} else {
				p.Caps = rapid.Uint16().Draw(t, "caps")
			}
		case "tc":
			if !o.TokenAuth {
				p.Cookie = rapid.SampledFrom([]string{"none", "garbage", "empty"}).Draw(t, "cookie")
			} else if rapid.IntRange(0, 9).Draw(t, "cookieGood") < 6 {
				p.Cookie = rapid.SampledFrom([]string{"valid:A", "valid:A", "valid:B"}).Draw(t, "cookie")
			} else {
				p.Cookie = rapid.SampledFrom(cookies).Draw(t, "cookie")
			}
		case "cc":
			if rapid.IntRange(0, 9).Draw(t, "hostGood") < 6 {
				p.Host = "A"
			} else {
				p.Host = rapid.SampledFrom(hosts).Draw(t, "host")
			}
		case "data":
			p.Payload = genPayload(t, "data", 300)
		case "ta":
			if o.ClientNames && rapid.IntRange(0, 3).Draw(t, "badName") == 0 {
				p.Name = rapid.SampledFrom([]string{"bad-pc", "badger", "bad"}).Draw(t, "clientName")
			}
		case "unk":
			p.Type = rapid.SampledFrom(unknownTypes).Draw(t, "type")
			p.Body = genPayload(t, "body", 40)
		}
		if k == "hs" || k == "tc" || k == "ta" || k == "cc" {
			if rapid.IntRange(0, 9).Draw(t, "malformed") == 0 {
				kinds := []string{"trunc", "over"}
				if k == "hs" {
					kinds = []string{"trunc", "extra"}
				}
				if k == "ta" {
					kinds = []string{"trunc", "over", "extra"}
				}
				if k == "tc" && p.Cookie == "none" {
					kinds = nil
				}
				if kinds != nil {
					p.Mal = rapid.SampledFrom(kinds).Draw(t, "malKind")
					p.MalN = rapid.IntRange(0, 63).Draw(t, "malN")
				}
			}
		}
		return p
	}
	order := []string{"hs", "tc", "ta", "cc", "data", "data"}
	all := []string{"hs", "tc", "ta", "cc", "data", "ka", "close", "unk"}
	n := rapid.IntRange(1, 12).Draw(t, "len")
	ph := 0 // predicted phase index into order; -1 = predicted dead
	var out []PktSpec
	for i := 0; i < n; i++ {
		var p PktSpec
		if ph >= 0 && rapid.IntRange(0, 9).Draw(t, "advance") < 6 {
			k := order[ph]
			if ph >= 4 {
				k = rapid.SampledFrom([]string{"data", "data", "ka", "close"}).Draw(t, "openOp")
			}
			p = mk(k)
			if rapid.IntRange(0, 11).Draw(t, "aliased") == 0 {
				// what would be the right next step, under a type that only shares its low byte with it
				ap := p
				ap.Mal, ap.MalN = "", 0
				p = PktSpec{K: "unk", Alias: &ap, Hi: rapid.SampledFrom([]byte{1, 2, 0x80, 0xff}).Draw(t, "typeHi")}
			}
		} else {
			p = mk(rapid.SampledFrom(all).Draw(t, "any"))
		}
		out = append(out, p)
		// crude prediction
		if ph >= 0 {
			want := ""
			if ph < 4 {
				want = order[ph]
			}
			switch {
			case p.K == "unk":
			case ph >= 4 && (p.K == "data" || p.K == "ka"):
				ph = 5
			case ph >= 4 && p.K == "close":
				ph = -1
			case p.K == want && p.Mal == "":
				good := true
				switch p.K {
				case "hs":
					s := o.serverCaps()
					good = (s == 0 && p.Caps == 0) || (s&p.Caps != 0)
				case "tc":
					good = !o.TokenAuth || len(p.Cookie) > 5 && p.Cookie[:5] == "valid"
				case "cc":
					good = p.Host == "A" || p.Host == "B"
				}
				if good {
					ph++
				} else {
					ph = -1
				}
			default:
				ph = -1
			}
		}
	}
	if ph < 0 {
		// probes after the predicted end: valid-looking next steps that must not be answered, relayed or connected
		for i, m := 0, rapid.IntRange(0, 3).Draw(t, "afterEnd"); i < m; i++ {
			out = append(out, mk(rapid.SampledFrom([]string{"data", "cc", "tc", "ta", "close"}).Draw(t, "probe")))
		}
	}
	out = append(out, PktSpec{K: "hs", Caps: o.serverCaps()}, PktSpec{K: "hs", Caps: o.serverCaps()})
	return out
}

// runHistory sends the units over the transport and returns the observation (responses decoded strictly).
func runHistory(kind string, t gwc.Target, units [][]byte) (model.Obs, sess.Result, *Violation) {
	return runHistoryVia(kind, t, units, "")
}

// runHistoryVia: variant "second-in-early" (legacy) retries RDG_IN_DATA with the same connection id while the first
// RDG_IN_DATA has been accepted but has not yet sent its preamble. A tunnel has one client-to-server channel:
// if the gateway serves the retry as well, the history is played on it too, and whatever that causes on
// RDG_OUT_DATA or at the hosts is judged against the one history as usual.
func runHistoryVia(kind string, t gwc.Target, units [][]byte, variant string) (model.Obs, sess.Result, *Violation) {
	w := W()
	s := w.snap()
	var r sess.Result
	if variant == "second-in-early" && kind == "legacy" {
		id := sess.NewConnID()
		l, err := gwc.OpenOut(t, id)
		if err == nil {
			l.HoldPreamble = true
			if err = l.OpenIn(t, id); err != nil {
				l.Close()
			}
		}
		if err != nil {
			r = sess.Result{Kind: kind, OpenStatus: -1, OpenErr: err.Error()}
			var he *gwc.HTTPStatusError
			if errors.As(err, &he) {
				r.OpenStatus = he.Code
			}
		} else {
			if l2, err2 := gwc.OpenInOnlyHeld(t, id); l2 != nil {
				if err2 == nil && l2.SendPreamble() == nil {
					l2.Pipeline = true
					for _, u := range units {
						if l2.Send(u) != nil {
							break
						}
					}
					l2.SyncPeer()
				}
				defer l2.Close()
			}
			l.SendPreamble()
			r = sess.RunOn(l, units)
		}
	} else if variant == "in-again-after-end" && kind == "legacy" {
		// the tunnel runs to its end; then the client presents the same connection id on a new RDG_IN_DATA and plays
		// the history once more: an ended tunnel stays ended - nothing of that may be answered, relayed or connected
		id := sess.NewConnID()
		l, err := gwc.DialLegacy(t, id)
		if err != nil {
			r = sess.Result{Kind: kind, OpenStatus: -1, OpenErr: err.Error()}
			var he *gwc.HTTPStatusError
			if errors.As(err, &he) {
				r.OpenStatus = he.Code
			}
		} else {
			r = sess.RunOn(l, units)
			if r.Ended {
				if l2, err2 := gwc.OpenInOnly(t, id); l2 != nil {
					if err2 == nil {
						l2.Pipeline = true
						for _, u := range units {
							if l2.Send(u) != nil {
								break
							}
						}
						l2.WaitInClosed(500 * time.Millisecond)
					}
					l2.Close()
				}
			}
		}
	} else {
		r = sess.Run(kind, t, units)
	}
	var obs model.Obs
	if r.OpenStatus != 0 {
		w.observe(s, 0)
		return obs, r, viol("open/"+fmt.Sprint(r.OpenStatus), "transport did not open: %d %s", r.OpenStatus, r.OpenErr)
	}
	resps, err := sess.Decode(r.Pkts)
	obs.Accepts, obs.Bytes = w.observe(s, channelSuccesses(resps))
	obs.Ended = r.Ended
	if err != nil {
		return obs, r, viol("decode", "%v", err)
	}
	if len(r.Rest) != 0 {
		return obs, r, viol("decode/unframed-tail", "server stream ends with %d bytes that are not a packet: %x", len(r.Rest), r.Rest)
	}
	if !r.UnitsOK {
		return obs, r, viol("decode/message-not-one-packet", "a websocket message did not carry exactly one packet")
	}
	obs.Resps = resps
	return obs, r, nil
}

// channelSuccesses counts the channel responses reporting success.
func channelSuccesses(resps []tsgu.Resp) int {
	n := 0
	for _, r := range resps {
		if r.Type == tsgu.PktChannelResponse && r.Status == 0 {
			n++
		}
	}
	return n
}

func userHeader(o gwOpts, user string) [][2]string {
	if o.TokenAuth || user == "" {
		return nil
	}
	return [][2]string{{inproc.UserHeader, user}}
}

func historyString(specs []PktSpec) string {
	s := ""
	for i, p := range specs {
		if i > 0 {
			s += " "
		}
		s += p.String()
	}
	return s
}
