package props

import (
	"bytes"
	"encoding/base64"
	"encoding/binary"
	"fmt"
	"io"
	"net/http"
	"net/http/httptest"
	"os"
	"path/filepath"
	"strings"
	"testing"
	"time"

	authconfig "github.com/bolkedebruin/rdpgw/cmd/auth/config"
	"github.com/bolkedebruin/rdpgw/cmd/auth/database"
	"github.com/bolkedebruin/rdpgw/cmd/auth/ntlm"
	"github.com/bolkedebruin/rdpgw/cmd/rdpgw/kdcproxy"
	"github.com/bolkedebruin/rdpgw/shared/auth"
	"pgregory.net/rapid"

	"verif/harness/lab/gwc"
	"verif/harness/lab/gwproc"
	"verif/harness/lab/kdc"
	"verif/harness/lab/ntlmx"
	"verif/harness/lab/sess"
)

// C10, further surfaces: NTLM messages handed to the authentication service's verifier, KDC-proxy bodies,
// raw HTTP to every endpoint of the real binary, and tunnel bytes against TLS / socket-buffer configurations.

// ---- NTLM messages (the gRPC handler of rdpgw-auth runs this code without recovery) ----

type c10Ntlm struct {
	Msgs []c10NtlmMsg `json:"messages"`
}
type c10NtlmMsg struct {
	Session int    `json:"session"`
	Base    string `json:"base"` // negotiate | authenticate | noise
	Mut     string `json:"mutation"`
	Pos     int    `json:"pos"`
	Val     uint32 `json:"val"`
	Noise   []byte `json:"noise,omitempty"`
	BadB64  bool   `json:"bad_base64,omitempty"`
}

func genC10Ntlm(t *rapid.T) c10Ntlm {
	var c c10Ntlm
	for i, n := 0, rapid.IntRange(1, 6).Draw(t, "n"); i < n; i++ {
		m := c10NtlmMsg{Session: rapid.IntRange(0, 2).Draw(t, "session"), Base: rapid.SampledFrom([]string{"negotiate", "authenticate", "authenticate", "noise"}).Draw(t, "base")}
		m.Mut = rapid.SampledFrom([]string{"none", "truncate", "field-len", "field-off", "type", "byte", "extend", "flags"}).Draw(t, "mut")
		m.Pos = rapid.IntRange(0, 400).Draw(t, "pos")
		m.Val = rapid.SampledFrom([]uint32{0, 1, 2, 3, 4, 8, 0x7f, 0xff, 0x100, 0x7fff, 0xffff, 0x10000, 0x7fffffff, 0xffffffff}).Draw(t, "val")
		if m.Base == "noise" {
			m.Noise = rapid.SliceOfN(rapid.Byte(), 0, 80).Draw(t, "noise")
		}
		m.BadB64 = rapid.IntRange(0, 15).Draw(t, "badb64") == 0
		c.Msgs = append(c.Msgs, m)
	}
	return c
}

func mutateNtlm(m c10NtlmMsg, b []byte) []byte {
	b = append([]byte(nil), b...)
	if len(b) == 0 {
		return b
	}
	// the security-buffer fields of a type-3 message start at 12, 20, 28, 36, 44, 52; of a type-1 at 16, 24
	fields := []int{12, 20, 28, 36, 44, 52, 16, 24}
	f := fields[m.Pos%len(fields)]
	switch m.Mut {
	case "truncate":
		b = b[:m.Pos%(len(b)+1)]
	case "field-len":
		if len(b) >= f+4 {
			binary.LittleEndian.PutUint16(b[f:], uint16(m.Val))
			binary.LittleEndian.PutUint16(b[f+2:], uint16(m.Val>>16))
		}
	case "field-off":
		if len(b) >= f+8 {
			binary.LittleEndian.PutUint32(b[f+4:], m.Val)
		}
	case "type":
		if len(b) >= 12 {
			binary.LittleEndian.PutUint32(b[8:], m.Val)
		}
	case "byte":
		b[m.Pos%len(b)] = byte(m.Val)
	case "extend":
		b = append(b, bytes.Repeat([]byte{byte(m.Val)}, m.Pos%50)...)
	case "flags":
		if len(b) >= 64 {
			binary.LittleEndian.PutUint32(b[60:], m.Val)
		}
	}
	return b
}

func TestC10_NTLM(t *testing.T) {
	runProp(t, "C10_NTLM", genC10Ntlm, func(c c10Ntlm) (bool, []string) {
		nt := false
		var cl []string
		for _, m := range c.Msgs {
			cl = append(cl, "base="+m.Base, "mut="+m.Mut)
			if m.Base != "noise" && m.Mut != "truncate" {
				nt = true // keeps the NTLMSSP signature: passes the first validation layer
			}
		}
		return nt, cl
	}, func(c c10Ntlm) *Violation {
		svc := ntlm.NewNTLMAuth(database.NewConfig([]authconfig.UserConfig{{Username: "alice", Password: "pw-a"}, {Username: "bob", Password: ""}}))
		var lastChallenge *ntlmx.Challenge
		for i, m := range c.Msgs {
			var raw []byte
			switch m.Base {
			case "negotiate":
				raw = ntlmx.Negotiate()
			case "authenticate":
				ch := lastChallenge
				if ch == nil {
					ch = &ntlmx.Challenge{ServerChallenge: make([]byte, 8), TargetInfo: []byte{0, 0, 0, 0}}
				}
				raw, _, _ = ntlmx.Authenticate(ntlmx.AuthSpec{User: "alice", Domain: "D", Workstation: "WS", Key: ntlmx.NTOWFv2("pw-a", "alice", "D"),
					ServerChallenge: ch.ServerChallenge, TargetInfo: ch.TargetInfo, Timestamp: make([]byte, 8), ClientChallenge: make([]byte, 8)})
			default:
				raw = m.Noise
			}
			raw = mutateNtlm(m, raw)
			msg := base64.StdEncoding.EncodeToString(raw)
			if m.BadB64 {
				msg = "*" + msg
			}
			var pv *Violation
			var resp *auth.NtlmResponse
			func() {
				defer func() {
					if p := recover(); p != nil {
						pv = viol("c10/ntlm-panic", "message %d (%s, mutation %s pos %d val %#x) panics the NTLM verifier: %v\n message: %x", i, m.Base, m.Mut, m.Pos, m.Val, p, raw)
					}
				}()
				resp, _ = svc.Authenticate(&auth.NtlmRequest{Session: fmt.Sprintf("s%d", m.Session), NtlmMessage: msg})
			}()
			if pv != nil {
				return pv
			}
			if resp != nil && resp.NtlmMessage != "" {
				if b, err := base64.StdEncoding.DecodeString(resp.NtlmMessage); err == nil {
					if ch, err := ntlmx.ParseChallenge(b); err == nil {
						lastChallenge = ch
					}
				}
			}
		}
		return nil
	})
}

// ---- KDC-proxy bodies ----

type c10Kdc struct {
	Body   []byte `json:"body"`
	Kind   string `json:"kind"`
	Method string `json:"method"`
}

func TestC10_KDC(t *testing.T) {
	dir := t.TempDir()
	cf := filepath.Join(dir, "krb5.conf")
	k, err := kdc.Start("reply-at-once", []byte{0, 0, 0, 3, 1, 2, 3}, false) // answers whatever it is sent: hostile length prefixes must not stall the run
	if err != nil {
		t.Fatal(err)
	}
	defer k.Close()
	os.WriteFile(cf, []byte("[libdefaults]\n default_realm = EXAMPLE.COM\n dns_lookup_kdc = false\n[realms]\n EXAMPLE.COM = {\n  kdc = "+k.Addr()+"\n }\n"), 0o600)
	proxy := kdcproxy.InitKdcProxy(cf)
	var errlog lockedWriter
	ts := httptest.NewUnstartedServer(http.HandlerFunc(proxy.Handler))
	ts.Config.ErrorLog = newLogger(&errlog)
	ts.Start()
	defer ts.Close()
	runProp(t, "C10_KDC", func(t *rapid.T) c10Kdc {
		c := c10Kdc{Method: "POST", Kind: rapid.SampledFrom([]string{"valid-short", "valid-empty", "prefix-lie", "prefix-lie", "huge-declared", "indefinite", "trailing", "nested-deep", "noise", "byte-flip", "truncated", "wrong-tags", "neg-int"}).Draw(t, "kind")}
		msg := rapid.SliceOfN(rapid.Byte(), 0, 40).Draw(t, "msg")
		good := kdc.EncodeProxyMessage(append([]byte{0, 0, 0, byte(len(msg))}, msg...), rapid.SampledFrom([]string{"", "EXAMPLE.COM", "X"}).Draw(t, "realm"), false)
		switch c.Kind {
		case "valid-short":
			c.Body = kdc.EncodeProxyMessage(msg[:len(msg)%5], "", false)
		case "valid-empty":
			c.Body = kdc.EncodeProxyMessage(nil, "", false)
		case "prefix-lie":
			// well-formed DER, known realm, but the four-byte length prefix of the Kerberos message does not say its length
			pfx := rapid.SampledFrom([]uint32{0, 1, 3, 4, 5, uint32(len(msg)) + 1, uint32(len(msg)) + 4, uint32(len(msg)) + 5, 0xffff, 0x10000, 0x7fffffff, 0x80000000,
				0xfffffff0, 0xfffffffb, 0xfffffffc, 0xfffffffd, 0xfffffffe, 0xffffffff}).Draw(t, "prefix")
			if rapid.IntRange(0, 3).Draw(t, "anyPrefix") == 0 {
				pfx = rapid.Uint32().Draw(t, "prefixAny")
			}
			c.Body = kdc.EncodeProxyMessage(append(binary.BigEndian.AppendUint32(nil, pfx), msg...), rapid.SampledFrom([]string{"", "EXAMPLE.COM"}).Draw(t, "realm2"), false)
		case "huge-declared":
			c.Body = append([]byte{0x30, 0x84, 0x7f, 0xff, 0xff, 0xff}, good[2:]...)
		case "indefinite":
			c.Body = append([]byte{0x30, 0x80}, append(good[2:], 0, 0)...)
		case "trailing":
			c.Body = append(good, rapid.SliceOfN(rapid.Byte(), 1, 8).Draw(t, "trail")...)
		case "nested-deep":
			b := good
			for i := 0; i < rapid.IntRange(1, 40).Draw(t, "depth"); i++ {
				b = append([]byte{0xA0, byte(len(b) & 0x7f)}, b...)
			}
			c.Body = b
		case "noise":
			c.Body = rapid.SliceOfN(rapid.Byte(), 0, 60).Draw(t, "noise")
		case "byte-flip":
			c.Body = append([]byte(nil), good...)
			c.Body[rapid.IntRange(0, len(good)-1).Draw(t, "at")] ^= byte(1 << uint(rapid.IntRange(0, 7).Draw(t, "bit")))
		case "truncated":
			c.Body = good[:rapid.IntRange(0, len(good)-1).Draw(t, "cut")]
		case "wrong-tags":
			c.Body = append([]byte(nil), good...)
			c.Body[2] = rapid.SampledFrom([]byte{0xA1, 0xA2, 0x04, 0x30, 0x80}).Draw(t, "tag")
		case "neg-int":
			c.Body = append(append([]byte{0x30, byte(len(good) - 2 + 5)}, good[2:]...), 0xA2, 0x03, 0x02, 0x01, 0xff)
		}
		return c
	}, func(c c10Kdc) (bool, []string) {
		return len(c.Body) > 2 && c.Body[0] == 0x30, []string{"kind=" + c.Kind}
	}, func(c c10Kdc) *Violation {
		req, _ := http.NewRequest(c.Method, ts.URL+"/KdcProxy", bytes.NewReader(c.Body))
		cl := &http.Client{Timeout: answerBound, Transport: &http.Transport{DisableKeepAlives: true}}
		resp, err := cl.Do(req)
		if p := errlog.String(); strings.Contains(p, "panic serving") {
			return viol("c10/kdc-panic/"+panicSite(p), "KDC-proxy body (%s) %x panics the handler:\n%s", c.Kind, c.Body, tail(p, 1200))
		}
		if err != nil {
			return viol("c10/kdc-no-answer", "KDC-proxy body (%s) %x: no HTTP response: %v", c.Kind, c.Body, err)
		}
		io.Copy(io.Discard, resp.Body)
		resp.Body.Close()
		return nil
	})
}

// ---- raw HTTP to every endpoint of the real binary ----

type c10Http struct {
	Auth  string   `json:"authentication,omitempty"` // "" = the usual instance; ntlm | kerberos | local: an instance guarding the tunnel endpoint with that mechanism (authentication service attached)
	Opts  gwOpts   `json:"gateway"`
	Reqs  []string `json:"raw_requests"`
}

var c10Paths = []string{"/remoteDesktopGateway/", "/remoteDesktopGateway/x", "/connect", "/connect?host=%zz", "/callback", "/callback?state=%00&code=", "/tokeninfo", "/tokeninfo?access_token=" + strings.Repeat("a.", 40),
	"/metrics", "/KdcProxy", "/", "//", "/remoteDesktopGateway", "*", "/connect?host=" + strings.Repeat("A", 9000)}
var c10Methods = []string{"GET", "POST", "HEAD", "PUT", "RDG_OUT_DATA", "RDG_IN_DATA", "OPTIONS", "CONNECT", "BREW", "get", ""}

func genC10Http(t *rapid.T) c10Http {
	c := c10Http{Opts: genC01Opts(t)}
	c.Auth = rapid.SampledFrom([]string{"", "", "ntlm", "ntlm", "kerberos", "local"}).Draw(t, "auth")
	b64 := func(b []byte) string { return base64.StdEncoding.EncodeToString(b) }
	type1 := ntlmx.Negotiate()
	type3, _, _ := ntlmx.Authenticate(ntlmx.AuthSpec{User: "1", Key: ntlmx.NTOWFv2("pw-1", "1", ""), ServerChallenge: []byte{1, 2, 3, 4, 5, 6, 7, 8}, TargetInfo: []byte{0, 0, 0, 0},
		Timestamp: make([]byte, 8), ClientChallenge: make([]byte, 8), Workstation: "WS"})
	authPayloads := []string{b64([]byte("garbage")), "!!!", b64([]byte("NTLMSSP\x00")), b64(type1[:16]), b64(type1), b64(append([]byte("NTLMSSP\x00\x02\x00\x00\x00"), make([]byte, 40)...)), b64(type3), b64(type3[:70]),
		b64([]byte{0xff, 0xfe, 0xfd}), b64([]byte("user:pass")), b64([]byte("\xff\xfe:\xfd")), b64([]byte("nocolon")), b64([]byte(":")), ""}
	for i, n := 0, rapid.IntRange(1, 6).Draw(t, "n"); i < n; i++ {
		var sb strings.Builder
		fmt.Fprintf(&sb, "%s %s %s\r\n", rapid.SampledFrom(c10Methods).Draw(t, "method"), rapid.SampledFrom(c10Paths).Draw(t, "path"), rapid.SampledFrom([]string{"HTTP/1.1", "HTTP/1.0", "HTTP/2.0", "HTTP/1.1 ", "FTP/1.1", ""}).Draw(t, "proto"))
		sb.WriteString("Host: gw\r\nConnection: close\r\n")
		for j, m := 0, rapid.IntRange(0, 5).Draw(t, "nhdr"); j < m; j++ {
			h := rapid.SampledFrom([]string{"Authorization: NTLM", "Authorization: Negotiate", "Authorization: Basic", "Authorization: Basic Og==", "Authorization: NTLM TlRMTVNTUAABAAAA", "Authorization: Bearer x",
				"Cookie: RDPGWSESSION=abc", "Cookie: RDPGWSESSION=" + strings.Repeat("QUJD", 300), "Cookie: =;;=", "X-Forwarded-For: ,,,", "X-Forwarded-For: " + strings.Repeat("1.2.3.4, ", 200),
				"Rdg-Connection-Id: {}", "Rdg-Connection-Id: " + strings.Repeat("x", 5000), "Connection: upgrade", "Connection: Upgrade", "Upgrade: websocket", "Sec-WebSocket-Key: x", "Sec-WebSocket-Version: 13", "Sec-WebSocket-Version: 8",
				"Content-Length: 5", "Content-Length: -1", "Content-Length: 99999999999999999999", "Transfer-Encoding: chunked", "Transfer-Encoding: gzip", "Expect: 100-continue", "Content-Type: application/kerberos"}).Draw(t, "hdr")
			sb.WriteString(h + "\r\n")
		}
		if c.Auth != "" && rapid.IntRange(0, 3).Draw(t, "authHdr") > 0 {
			// something for the authentication backend to choke on
			fmt.Fprintf(&sb, "Authorization: %s %s\r\n", rapid.SampledFrom([]string{"NTLM", "Negotiate", "Basic"}).Draw(t, "scheme"), rapid.SampledFrom(authPayloads).Draw(t, "authPayload"))
		}
		sb.WriteString("\r\n")
		sb.WriteString(rapid.SampledFrom([]string{"", "hello", "5\r\nhello\r\n0\r\n\r\n", "ffffffffffffffff\r\n", "\x30\x03\xa0\x01\x00"}).Draw(t, "body"))
		c.Reqs = append(c.Reqs, sb.String())
	}
	return c
}

func TestC10_HTTP(t *testing.T) {
	runProp(t, "C10_HTTP", genC10Http, func(c c10Http) (bool, []string) {
		nt := false
		for _, r := range c.Reqs {
			f := strings.Fields(strings.SplitN(r, "\r\n", 2)[0])
			if len(f) == 3 && strings.HasPrefix(f[1], "/") && f[2] == "HTTP/1.1" {
				nt = true // valid request line and route
			}
		}
		return nt, nil
	}, func(c c10Http) *Violation {
		o := resolveHosts(c.Opts)
		var in *gwproc.Inst
		var tgt gwc.Target
		var err error
		if c.Auth != "" {
			in, err = c05Instance([]string{c.Auth})
		} else {
			in, tgt, err = binFor(o, W().User)
		}
		if err != nil {
			return viol("bin/start", "%v", err)
		}
		for _, r := range c.Reqs {
			if c.Auth != "" && !strings.Contains(r, "Authorization:") && strings.HasPrefix(r, "RDG_") {
				continue
			}
			gwc.RawHTTP(gwc.Target{Addr: in.Addr, TLS: in.TLS}, []byte(r), 120*time.Millisecond)
			if v := binHealthQuick(in); v != nil {
				return v
			}
		}
		if f := in.Faults(); f != "" {
			if c.Auth != "" {
				c05Mu.Lock()
				delete(c05Pool, c.Auth)
				c05Mu.Unlock()
				in.Stop()
			} else {
				dropBin(in)
			}
			return viol("c10/http-fault/"+panicSite(f), "raw HTTP input caused a runtime fault (authentication %q):\n%s\n last requests: %q", c.Auth, f, c.Reqs)
		}
		if c.Auth != "" {
			return nil // the liveness probe below needs an open tunnel endpoint; binHealthQuick has covered this instance
		}
		if v := livenessProbe(tgt); v != nil {
			return v
		}
		return nil
	})
}

// ---- tunnel bytes against TLS and socket-buffer configurations of the real binary ----

func TestC10_BIN(t *testing.T) {
	runProp(t, "C10_BIN", func(t *rapid.T) c10Pkt {
		c := genC10Pkt(t)
		c.Opts.TLS = rapid.Bool().Draw(t, "tls")
		if rapid.Bool().Draw(t, "bufs2") {
			c.Opts.SendBuf = rapid.SampledFrom([]int{0, 1, 2048, 65536}).Draw(t, "sendbuf2")
			c.Opts.ReceiveBuf = rapid.SampledFrom([]int{0, 1, 2048, 65536}).Draw(t, "recvbuf2")
		}
		c.Order = "out-in"
		return c
	}, func(c c10Pkt) (bool, []string) {
		cl := []string{"kind=" + c.Kind, fmt.Sprintf("tls=%v", c.Opts.TLS)}
		if c.Opts.SendBuf > 0 || c.Opts.ReceiveBuf > 0 {
			cl = append(cl, "sockbuf")
		}
		return true, cl
	}, func(c c10Pkt) *Violation {
		o := resolveHosts(c.Opts)
		in, tgt, err := binFor(o, W().User)
		if err != nil {
			return viol("bin/start", "%v", err)
		}
		w := W()
		snap := w.snap()
		conn, err := gwc.Dial(c.Kind, tgt, sess.NewConnID())
		if err == nil {
			for i, u := range c.Units {
				if ws, ok := conn.(*gwc.WS); ok && i == c.Text {
					ws.SendText(u)
				} else if conn.Send(u) != nil {
					break
				}
				switch x := conn.(type) {
				case *gwc.WS:
					x.SyncPeer()
				case *gwc.Legacy:
					x.SyncPeer()
				}
			}
			conn.Close()
		}
		w.observe(snap, 0)
		if f := in.Faults(); f != "" {
			dropBin(in)
			return viol("bin/fault/"+panicSite(f), "runtime fault on the gateway's stderr (tls=%v sendbuf=%d recvbuf=%d):\n%s", o.TLS, o.SendBuf, o.ReceiveBuf, f)
		}
		if v := binHealthQuick(in); v != nil {
			return v
		}
		if err != nil {
			return viol("c10/open", "transport did not open on a healthy instance: %v", err)
		}
		return livenessProbe(tgt)
	})
}

var _ = gwproc.Bin
