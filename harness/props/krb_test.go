package props

import (
	"encoding/base64"
	"os"
	"path/filepath"
	"time"

	"github.com/bolkedebruin/gokrb5/v8/client"
	krbconfig "github.com/bolkedebruin/gokrb5/v8/config"
	"github.com/bolkedebruin/gokrb5/v8/iana/nametype"
	"github.com/bolkedebruin/gokrb5/v8/keytab"
	"github.com/bolkedebruin/gokrb5/v8/messages"
	"github.com/bolkedebruin/gokrb5/v8/spnego"
	"github.com/bolkedebruin/gokrb5/v8/types"
	"github.com/jcmturner/gofork/encoding/asn1"

	"verif/harness/lab/gwproc"
)

// krbNegotiate builds "Negotiate <SPNEGO token>" carrying a Kerberos AP-REQ for user whose service ticket is
// encrypted under the key of the given keytab (the gateway's, or a foreign one) - there is no KDC here, the
// harness plays it.
func krbNegotiate(user string, foreignKey bool) (string, error) {
	c18Files()
	ktPath := c18Ktab
	if foreignKey {
		kt := keytab.New()
		kt.AddEntry("HTTP/gw.example.test", "EXAMPLE.COM", "some-other-password", time.Now(), 1, 18)
		b, _ := kt.Marshal()
		ktPath = filepath.Join(gwproc.WorkDir(), "foreign.keytab")
		os.WriteFile(ktPath, b, 0o600)
	}
	kt, err := keytab.Load(ktPath)
	if err != nil {
		return "", err
	}
	cfg, err := krbconfig.Load(c18Krb5)
	if err != nil {
		return "", err
	}
	cname := types.PrincipalName{NameType: nametype.KRB_NT_PRINCIPAL, NameString: []string{user}}
	sname := types.PrincipalName{NameType: nametype.KRB_NT_SRV_INST, NameString: []string{"HTTP", "gw.example.test"}}
	now := time.Now().UTC()
	tkt, key, err := messages.NewTicket(cname, "EXAMPLE.COM", sname, "EXAMPLE.COM", asn1.BitString{Bytes: make([]byte, 4), BitLength: 32}, kt, 18, 1, now, now, now.Add(time.Hour), now.Add(2*time.Hour))
	if err != nil {
		return "", err
	}
	cl := client.NewWithPassword(user, "EXAMPLE.COM", "unused", cfg)
	nt, err := spnego.NewNegTokenInitKRB5(cl, tkt, key)
	if err != nil {
		return "", err
	}
	tok := spnego.SPNEGOToken{Init: true, NegTokenInit: nt}
	b, err := tok.Marshal()
	if err != nil {
		return "", err
	}
	return "Negotiate " + base64.StdEncoding.EncodeToString(b), nil
}
