package props

import (
	"encoding/binary"
	"fmt"
	"testing"
	"time"

	"pgregory.net/rapid"

	"verif/harness/lab/gwc"
	"verif/harness/lab/sess"
	"verif/harness/lab/tsgu"
)

// C10 — no client input can panic, crash or wedge the gateway.

type c10Pkt struct {
	Opts  gwOpts   `json:"gateway"`
	Kind  string   `json:"transport"`
	Order string   `json:"order"` // legacy request ordering: out-in | in-only | in-out | in-in | out-only | out-out-in
	Units [][]byte `json:"units"` // raw transport units
	Text  int      `json:"text_at"` // websocket: send unit #Text as a text message (-1 = none)
	Frag  int      `json:"frag"`    // websocket: continuation-frame size (0 = none)
}

var hostileLens = []uint32{0, 1, 2, 7, 8, 9, 0xff, 0x1000, 0xffff, 0x10000, 0x7fffffff, 0x80000000, 0xffffffff}

func mutateUnit(t *rapid.T, u []byte) []byte {
	u = append([]byte(nil), u...)
	switch rapid.IntRange(0, 13).Draw(t, "mut") {
	case 13: // hostile UTF-16 content of the string field (cookie / client name / server name), lengths consistent
		if len(u) >= 8 {
			typ := binary.LittleEndian.Uint16(u)
			off := map[uint16]int{tsgu.PktTunnelCreate: 16, tsgu.PktTunnelAuth: 8, tsgu.PktChannelCreate: 14}[typ]
			if off > 0 && len(u) >= off+2 {
				units := rapid.SliceOfN(rapid.SampledFrom([]uint16{'a', '1', '.', ':', 0, 0xd800, 0xd83d, 0xdbff, 0xdc00, 0xde00, 0xdfff, 0xfffe, 0xffff, 0x0100, 0x2028}), 0, 12).Draw(t, "units")
				if rapid.Bool().Draw(t, "endsInSurrogate") {
					units = append(units, rapid.SampledFrom([]uint16{0xd800, 0xd83d, 0xdbff, 0xdc00, 0xdfff}).Draw(t, "lastUnit"))
				}
				s := tsgu.UTF16Raw(units)
				if rapid.IntRange(0, 5).Draw(t, "oddBytes") == 0 {
					s = append(s, 0x41) // half a code unit
				}
				body := append([]byte(nil), u[8:off]...)
				body = binary.LittleEndian.AppendUint16(body, uint16(len(s)))
				u = tsgu.Packet(typ, append(body, s...))
			}
		}
	case 10, 11: // hostile inner length field of this packet type (cookie / client name / server name / data payload)
		if len(u) >= 8 {
			off := map[uint16]int{tsgu.PktTunnelCreate: 16, tsgu.PktTunnelAuth: 8, tsgu.PktChannelCreate: 14, tsgu.PktData: 8}[binary.LittleEndian.Uint16(u)]
			if off > 0 && len(u) >= off+2 {
				real := int(binary.LittleEndian.Uint16(u[off:]))
				v := rapid.SampledFrom([]int{0, 1, real - 1, real + 1, real + 2, 0x7fff, 0xfffe, 0xffff}).Draw(t, "inner")
				if v < 0 {
					v = 0
				}
				binary.LittleEndian.PutUint16(u[off:], uint16(v))
			}
		}
	case 12: // body truncated at a drawn byte, header length consistent with what is carried
		if len(u) > 8 {
			keep := rapid.IntRange(0, len(u)-9).Draw(t, "keepBody")
			u = tsgu.Packet(binary.LittleEndian.Uint16(u), u[8:8+keep])
		}
	case 0: // hostile header length
		if len(u) >= 8 {
			binary.LittleEndian.PutUint32(u[4:], rapid.SampledFrom(hostileLens).Draw(t, "hlen"))
		}
	case 1: // length off by a little
		if len(u) >= 8 {
			binary.LittleEndian.PutUint32(u[4:], uint32(len(u)+rapid.IntRange(-9, 9).Draw(t, "delta")))
		}
	case 2: // truncate the unit
		u = u[:rapid.IntRange(0, len(u)).Draw(t, "cut")]
	case 3: // random type
		if len(u) >= 2 {
			binary.LittleEndian.PutUint16(u, rapid.Uint16().Draw(t, "ptype"))
		}
	case 4: // overwrite a few body bytes (inner length fields live there)
		for i, n := 0, rapid.IntRange(1, 4).Draw(t, "nbytes"); i < n && len(u) > 8; i++ {
			u[rapid.IntRange(8, len(u)-1).Draw(t, "pos")] = rapid.SampledFrom([]byte{0, 1, 0x7f, 0x80, 0xff}).Draw(t, "val")
		}
	case 5: // pure noise
		u = rapid.SliceOfN(rapid.Byte(), 0, 40).Draw(t, "noise")
	case 6: // header only, declared longer
		u = tsgu.Header(rapid.SampledFrom([]uint16{1, 4, 6, 8, 0xA, 0xD, 0x10}).Draw(t, "htype"), rapid.SampledFrom(hostileLens).Draw(t, "hlen2"))
	default: // keep valid
	}
	return u
}

func genC10Pkt(t *rapid.T) c10Pkt {
	o := genC01Opts(t)
	if rapid.IntRange(0, 5).Draw(t, "bufs") == 0 {
		o.SendBuf = rapid.SampledFrom([]int{0, 1, 4096, 65536}).Draw(t, "sendbuf")
		o.ReceiveBuf = rapid.SampledFrom([]int{0, 1, 4096, 65536}).Draw(t, "recvbuf")
	}
	c := c10Pkt{Opts: o, Kind: genKind(t), Order: "out-in", Text: -1}
	if c.Kind == "legacy" && rapid.IntRange(0, 2).Draw(t, "oddOrder") == 0 {
		c.Order = rapid.SampledFrom([]string{"in-only", "in-out", "in-in", "out-only", "out-out-in"}).Draw(t, "order")
	}
	var hist []PktSpec
	if rapid.Bool().Draw(t, "validBase") {
		hist = genValidHistory(t, o, 2000) // a session that gets far, so that hostile bytes hit every phase
	} else {
		hist = genHistory(t, o)
	}
	units, _ := render(histCfg{Opts: resolveHosts(o), Kind: c.Kind}, hist, "127.0.0.1")
	nm := rapid.IntRange(1, 3).Draw(t, "nmut")
	for i := 0; i < nm; i++ {
		j := rapid.IntRange(0, len(units)-1).Draw(t, "which")
		units[j] = mutateUnit(t, units[j])
	}
	c.Units = units
	if c.Kind == "ws" {
		if rapid.IntRange(0, 9).Draw(t, "text") == 0 {
			c.Text = rapid.IntRange(0, len(units)-1).Draw(t, "textAt")
		}
		if rapid.IntRange(0, 9).Draw(t, "fragmented") == 0 {
			c.Frag = rapid.IntRange(1, 64).Draw(t, "frag")
		}
	}
	return c
}

// liveness: a fresh well-behaved client still completes a handshake.
func livenessProbe(t gwc.Target) *Violation {
	r := sess.Run("ws", t, [][]byte{tsgu.Handshake(1, 2, 0, 3), tsgu.Handshake(0, 0, 0, 0)})
	if r.OpenStatus != 0 || len(r.Pkts) < 1 {
		return viol("c10/not-serving", "after hostile input a fresh client cannot complete a handshake: open=%d %s pkts=%d", r.OpenStatus, r.OpenErr, len(r.Pkts))
	}
	return nil
}

func runC10Pkt(c c10Pkt) *Violation {
	o := resolveHosts(c.Opts)
	tgt := inpTarget(userHeader(o, W().User)...)
	v := withGateway(mkGateway(o), func() *Violation {
		w := W()
		snap := w.snap()
		defer w.observe(snap, 0)
		id := sess.NewConnID()
		send := func(cn interface {
			Send([]byte) error
			SyncPeer() bool
		}) {
			for i, u := range c.Units {
				if ws, ok := cn.(*gwc.WS); ok && i == c.Text {
					ws.SendText(u)
				} else if err := cn.Send(u); err != nil {
					break
				}
				cn.SyncPeer()
			}
		}
		if c.Kind == "ws" {
			ws, err := gwc.DialWS(tgt, id)
			if err != nil {
				return viol("c10/open", "websocket did not open: %v", err)
			}
			ws.FragSize = c.Frag
			send(ws)
			ws.Close()
			return nil
		}
		var conns []*gwc.Legacy
		defer func() {
			for _, l := range conns {
				l.Close()
			}
		}()
		openOut := func() *gwc.Legacy {
			l, err := gwc.OpenOut(tgt, id)
			if err != nil {
				return nil
			}
			conns = append(conns, l)
			return l
		}
		switch c.Order {
		case "out-in":
			l := openOut()
			if l == nil {
				return viol("c10/open", "legacy OUT did not open")
			}
			if err := l.OpenIn(tgt, id); err == nil {
				send(l)
			}
		case "out-out-in":
			openOut()
			l := openOut()
			if l != nil {
				if err := l.OpenIn(tgt, id); err == nil {
					send(l)
				}
			}
		case "in-only":
			if l, err := gwc.OpenInOnly(tgt, id); err == nil {
				conns = append(conns, l)
				send(l)
			} else if l != nil {
				conns = append(conns, l)
			}
		case "in-out":
			l, err := gwc.OpenInOnly(tgt, id)
			if l != nil {
				conns = append(conns, l)
			}
			openOut()
			if err == nil {
				send(l)
			}
		case "in-in":
			l := openOut()
			if l != nil && l.OpenIn(tgt, id) == nil {
				if l2, err := gwc.OpenInOnly(tgt, id); l2 != nil {
					conns = append(conns, l2)
					if err == nil {
						send(l2)
					}
				}
				send(l)
			}
		case "out-only":
			openOut()
		}
		return nil
	})
	if v != nil {
		return v
	}
	if !inp().WaitIdle(5 * time.Second) {
		return viol("c10/wedged", "%d handler(s) still running 5 s after the client closed every connection", inp().Active())
	}
	return withGateway(mkGateway(o), func() *Violation { return livenessProbe(tgt) })
}

func TestC10_PKT(t *testing.T) {
	runProp(t, "C10_PKT", genC10Pkt,
		func(c c10Pkt) (bool, []string) {
			// non-trivial: at least one unit with a full 8-byte header
			nt := false
			for _, u := range c.Units {
				if len(u) >= 8 {
					nt = true
				}
			}
			cl := []string{"kind=" + c.Kind, "order=" + c.Order}
			if c.Opts.SendBuf > 0 || c.Opts.ReceiveBuf > 0 {
				cl = append(cl, "sockbuf")
			}
			return nt, cl
		}, runC10Pkt)
}

var _ = fmt.Sprint
