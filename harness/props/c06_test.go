package props

import (
	"bytes"
	"fmt"
	"os"
	"testing"
	"time"

	"pgregory.net/rapid"

	"verif/harness/lab/gwc"
	"verif/harness/lab/sess"
	"verif/harness/lab/tsgu"
)

// C06 — relayed byte streams are exact, ordered and complete in both directions.

type c06Pkt struct {
	N  int `json:"carried"`         // payload bytes carried
	Cb int `json:"cblen,omitempty"` // declared payload length; -1 = N
}

type c06Case struct {
	Opts    gwOpts   `json:"gateway"`
	Kind    string   `json:"transport"`
	CSeed   byte     `json:"client_seed"`
	HSeed   byte     `json:"host_seed"`
	CPkts   []c06Pkt `json:"client_packets"`
	HWrites []int    `json:"host_writes"`
	Sched   []bool   `json:"schedule"` // true = client sends next packet, false = host writes next chunk
	Group   []int    `json:"group"`    // client packets i..i+Group[i]-1 travel in one transport unit (one websocket message / one write of HTTP chunks)
}

var c06Sizes = []int{0, 1, 2, 3, 100, 1000, 4084, 4085, 4086, 4087, 4088, 4096, 8192, 16384, 65534, 65535}

func genSize(t *rapid.T, label string, max int) int {
	var n int
	if rapid.IntRange(0, 2).Draw(t, label+"Boundary") > 0 {
		n = rapid.SampledFrom(c06Sizes).Draw(t, label)
	} else {
		n = rapid.IntRange(0, 20000).Draw(t, label+"Any")
	}
	if n > max {
		n = max
	}
	return n
}

func genC06(t *rapid.T, maxTotal int) c06Case {
	c := c06Case{Opts: genC01Opts(t), Kind: genKind(t), CSeed: rapid.Byte().Draw(t, "cseed"), HSeed: rapid.Byte().Draw(t, "hseed")}
	nc := rapid.IntRange(0, 14).Draw(t, "nclient")
	tot := 0
	for i := 0; i < nc && tot < maxTotal; i++ {
		p := c06Pkt{N: genSize(t, "csz", 65535), Cb: -1}
		if rapid.IntRange(0, 11).Draw(t, "mismatch") == 0 {
			switch rapid.IntRange(0, 5).Draw(t, "cbKind") {
			case 0:
				p.Cb = p.N - 1
			case 1:
				p.Cb = p.N / 2
			case 2:
				p.Cb = 0
			case 3:
				p.Cb = p.N + 1
			case 4:
				p.Cb = p.N + 100
			case 5:
				p.Cb = 65535
			}
			if p.Cb < 0 || p.Cb > 65535 || p.Cb == p.N {
				p.Cb = -1
			}
		}
		tot += p.N
		c.CPkts = append(c.CPkts, p)
	}
	nh := rapid.IntRange(0, 14).Draw(t, "nhost")
	tot = 0
	for i := 0; i < nh && tot < maxTotal; i++ {
		n := genSize(t, "hsz", 1<<20)
		if rapid.IntRange(0, 15).Draw(t, "hbig") == 0 {
			n = rapid.IntRange(20000, maxTotal).Draw(t, "hbigsz")
		}
		if n == 0 {
			n = 1
		}
		tot += n
		c.HWrites = append(c.HWrites, n)
	}
	for i := 0; i < len(c.CPkts)+len(c.HWrites); i++ {
		c.Sched = append(c.Sched, rapid.Bool().Draw(t, "who"))
	}
	if rapid.IntRange(0, 2).Draw(t, "grouped") == 0 {
		for i := range c.CPkts {
			_ = i
			c.Group = append(c.Group, rapid.IntRange(1, 4).Draw(t, "group"))
		}
	}
	return c
}

// stream content depends on the absolute position so that loss, duplication and reordering are visible;
// it never contains a zero byte, so that invented filler is visible too.
func streamBytes(seed byte, off, n int) []byte {
	b := make([]byte, n)
	for i := range b {
		p := off + i
		v := byte(p) ^ byte(p>>8)*31 ^ byte(p>>16)*17 ^ seed
		if v == 0 {
			v = 0xA5
		}
		b[i] = v
	}
	return b
}

func pollDataPayload(c gwc.Conn, want int, d time.Duration) (payload []byte, perr error, ended bool) {
	deadline := time.Now().Add(d)
	for {
		payload = payload[:0]
		var pkts [][]byte
		var rest []byte
		if c.Kind() == "ws" {
			for _, u := range c.Units() {
				p, r := tsgu.SplitStream(u)
				if len(p) != 1 || r != nil {
					return nil, fmt.Errorf("a websocket message does not hold exactly one packet (%d bytes)", len(u)), false
				}
				pkts = append(pkts, p...)
			}
		} else {
			pkts, rest = tsgu.SplitStream(c.Stream())
		}
		_ = rest
		for _, p := range pkts {
			r, err := tsgu.Decode(p)
			if err != nil {
				return nil, err, false
			}
			if r.Type == tsgu.PktData {
				payload = append(payload, r.Payload...)
			}
		}
		ended = c.WaitEOF(0)
		if len(payload) >= want || ended || time.Now().After(deadline) {
			return append([]byte(nil), payload...), nil, ended
		}
		time.Sleep(200 * time.Microsecond)
	}
}

func runC06On(c c06Case, o gwOpts, tgt gwc.Target) *Violation {
	w := W()
	snap := w.snap()
	defer w.observe(snap, 0)
	conn, err := gwc.Dial(c.Kind, tgt, sess.NewConnID())
	if err != nil {
		return viol("c06/open", "transport did not open: %v", err)
	}
	defer conn.Close()
	setup, _ := render(histCfg{Opts: o, Kind: c.Kind}, []PktSpec{{K: "hs", Caps: o.serverCaps()}, {K: "tc", Cookie: map[bool]string{true: "valid:A", false: "none"}[o.TokenAuth]}, {K: "ta"}, {K: "cc", Host: "A"}}, "127.0.0.1")
	for _, u := range setup {
		if err := conn.Send(u); err != nil {
			return viol("c06/setup", "send failed during set-up: %v", err)
		}
	}
	host := w.L["A"].WaitAccept(snap["A"]+1, 10*time.Second)
	if host == nil {
		return viol("c06/setup", "no backend connection after a valid set-up; got %d units", len(conn.Units()))
	}
	// expected streams
	var hostStream []byte
	hoff := 0
	type cand struct{ b []byte }
	// client side: candidates because an over-long cblen may contribute nothing or the carried bytes
	cands := [][]byte{{}}
	overlongAt := []int{} // lengths of candidate prefixes at which the tunnel may legitimately have ended
	coff := 0
	var cunits [][]byte
	for _, p := range c.CPkts {
		data := streamBytes(c.CSeed, coff, p.N)
		coff += p.N
		cunits = append(cunits, tsgu.DataRaw(data, p.Cb))
		switch {
		case p.Cb < 0 || p.Cb == p.N:
			for i := range cands {
				cands[i] = append(cands[i], data...)
			}
		case p.Cb < p.N:
			for i := range cands {
				cands[i] = append(cands[i], data[:p.Cb]...)
			}
		default: // declared longer than carried
			var more [][]byte
			for i := range cands {
				overlongAt = append(overlongAt, len(cands[i]))
				more = append(more, append(append([]byte(nil), cands[i]...), data...))
			}
			if len(cands) < 8 {
				cands = append(cands, more...)
			}
		}
	}
	legacyGroups := map[int][][]byte{}
	var hchunks [][]byte
	for _, n := range c.HWrites {
		ch := streamBytes(c.HSeed, hoff, n)
		hoff += n
		hchunks = append(hchunks, ch)
		hostStream = append(hostStream, ch...)
	}
	// run the schedule; host writes happen on their own goroutine so that both directions overlap
	hq := make(chan []byte, len(hchunks)+1)
	hdone := make(chan error, 1)
	go func() {
		var e error
		for ch := range hq {
			if e == nil {
				e = host.Write(ch)
			}
		}
		hdone <- e
	}()
	// coalesce client packets into transport units
	if len(c.Group) > 0 {
		var grouped [][]byte
		for i := 0; i < len(cunits); {
			n := 1
			if i < len(c.Group) && c.Group[i] > 1 {
				n = c.Group[i]
			}
			if i+n > len(cunits) {
				n = len(cunits) - i
			}
			if lg, ok := conn.(*gwc.Legacy); ok && n > 1 {
				grouped = append(grouped, nil) // marker: sent through SendChunks below
				grp := cunits[i : i+n]
				legacyGroups[len(grouped)-1] = grp
				_ = lg
			} else {
				var u []byte
				for _, x := range cunits[i : i+n] {
					u = append(u, x...)
				}
				grouped = append(grouped, u)
			}
			i += n
		}
		cunits = grouped
	}
	sendUnit := func(i int) error {
		if g, ok := legacyGroups[i]; ok {
			lg := conn.(*gwc.Legacy)
			err := lg.SendChunks(g)
			lg.SyncPeer()
			return err
		}
		return conn.Send(cunits[i])
	}
	ci, hi := 0, 0
	var sendErr error
	for _, who := range c.Sched {
		if who && ci < len(cunits) {
			if sendErr == nil {
				sendErr = sendUnit(ci)
			}
			ci++
		} else if !who && hi < len(hchunks) {
			hq <- hchunks[hi]
			hi++
		}
	}
	for ; ci < len(cunits); ci++ {
		if sendErr == nil {
			sendErr = sendUnit(ci)
		}
	}
	for ; hi < len(hchunks); hi++ {
		hq <- hchunks[hi]
	}
	close(hq)
	herr := <-hdone
	// host -> client: wait until the client has everything the host wrote (then the relay goroutine is idle)
	got, perr, ended := pollDataPayload(conn, len(hostStream), 10*time.Second)
	if perr != nil {
		return viol("c06/client-packet-malformed", "a packet sent to the client is not well-formed: %v", perr)
	}
	mayEnd := len(overlongAt) > 0
	if !bytes.Equal(got, hostStream) && !(ended && mayEnd) {
		return viol("c06/host-to-client", "client received %d payload bytes, host wrote %d (first difference at %d, host write error %v, tunnel ended %v)",
			len(got), len(hostStream), firstDiff(got, hostStream), herr, ended)
	}
	if ended && mayEnd && !bytes.HasPrefix(hostStream, got) {
		return viol("c06/host-to-client", "client received bytes the host did not write (first difference at %d)", firstDiff(got, hostStream))
	}
	// client -> host: a CLOSE_CHANNEL after the data is answered (or ends the tunnel) only after every earlier
	// data packet has been processed
	conn.Send(tsgu.CloseChannel())
	if c.Kind == "ws" {
		conn.WaitEOF(10 * time.Second)
	} else {
		conn.WaitInClosed(10 * time.Second)
	}
	host.Settle()
	rx := host.Received()
	for _, cd := range cands {
		if bytes.Equal(rx, cd) {
			return nil
		}
	}
	if mayEnd {
		for _, cd := range cands {
			for _, at := range overlongAt {
				if at <= len(cd) && bytes.Equal(rx, cd[:at]) {
					return nil // the tunnel ended at the malformed packet
				}
			}
		}
	}
	want := cands[0]
	sig := "c06/client-to-host"
	if len(rx) > 0 && bytes.IndexByte(rx, 0) >= 0 {
		sig = "c06/client-to-host/invented-bytes"
	}
	return viol(sig, "host received %d bytes, the declared payloads are %d bytes (first difference at %d; %d candidate streams because of over-long length fields; send error %v)",
		len(rx), len(want), firstDiff(rx, want), len(cands), sendErr)
}

func classifyC06(c c06Case) (bool, []string) {
	ct, ht := 0, 0
	mism, boundary := false, false
	for _, p := range c.CPkts {
		ct += p.N
		if p.Cb >= 0 {
			mism = true
		}
		if p.N >= 4085 && p.N <= 4087 || p.N == 4096 || p.N == 65535 {
			boundary = true
		}
	}
	for _, n := range c.HWrites {
		ht += n
	}
	cl := []string{"kind=" + c.Kind}
	if mism {
		cl = append(cl, "cblen-mismatch")
	}
	if ct > 4086 {
		cl = append(cl, "client>buffer")
	}
	if ht > 4086 {
		cl = append(cl, "host>buffer")
	}
	if ct > 0 && ht > 0 {
		cl = append(cl, "bidirectional")
	}
	if len(c.Group) > 0 {
		cl = append(cl, "coalesced-units")
	}
	return ct > 4086 || ht > 4086 || mism || boundary || (ct > 0 && ht > 0), cl
}

func TestC06_INP(t *testing.T) {
	max := 256 << 10
	if os.Getenv("VERIF_TIER") == "thorough" {
		max = 2 << 20
	}
	runProp(t, "C06_INP", func(t *rapid.T) c06Case { return genC06(t, max) }, classifyC06, func(c c06Case) *Violation {
		o := resolveHosts(c.Opts)
		return withGateway(mkGateway(o), func() *Violation {
			return runC06On(c, o, inpTarget(userHeader(o, W().User)...))
		})
	})
}

func TestC06_BIN(t *testing.T) {
	runProp(t, "C06_BIN", func(t *rapid.T) c06Case { return genC06(t, 256<<10) }, classifyC06, func(c c06Case) *Violation {
		o := resolveHosts(c.Opts)
		in, tgt, err := binFor(o, W().User)
		if err != nil {
			return viol("bin/start", "%v", err)
		}
		if v := runC06On(c, o, tgt); v != nil {
			return v
		}
		return binHealthQuick(in)
	})
}
