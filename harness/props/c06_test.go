package props

import (
	"net"
	"bytes"
	"fmt"
	"os"
	"testing"
	"time"

	"pgregory.net/rapid"

	"verif/harness/lab/gwc"
	"verif/harness/lab/sess"
	"verif/harness/lab/tsgu"
)

// C06 — relayed byte streams are exact, ordered and complete in both directions.

type c06Pkt struct {
	N  int `json:"carried"`         // payload bytes carried
	Cb int `json:"cblen,omitempty"` // declared payload length; -1 = N
}

type c06Case struct {
	Opts    gwOpts   `json:"gateway"`
	Kind    string   `json:"transport"`
	CSeed   byte     `json:"client_seed"`
	HSeed   byte     `json:"host_seed"`
	CPkts   []c06Pkt `json:"client_packets"`
	HWrites []int    `json:"host_writes"`
	Sched   []bool   `json:"schedule"` // true = client sends next packet, false = host writes next chunk
	EndWithLast bool `json:"body_ends_with_last_unit,omitempty"` // legacy: the terminating zero-length chunk of RDG_IN_DATA travels in the same write as the last unit
	Tails   []int    `json:"unit_tails,omitempty"` // per transport unit: 1 = a keep-alive packet, 2 = a packet of unknown type travels in the same unit behind the data packet(s)
	Group   []int    `json:"group"`    // client packets i..i+Group[i]-1 travel in one transport unit (one websocket message / one write of HTTP chunks)
}

var c06Sizes = []int{0, 1, 2, 3, 100, 1000, 4084, 4085, 4086, 4087, 4088, 4096, 8192, 16384, 65534, 65535}

func genSize(t *rapid.T, label string, max int) int {
	var n int
	if rapid.IntRange(0, 2).Draw(t, label+"Boundary") > 0 {
		n = rapid.SampledFrom(c06Sizes).Draw(t, label)
	} else {
		n = rapid.IntRange(0, 20000).Draw(t, label+"Any")
	}
	if n > max {
		n = max
	}
	return n
}

func genC06(t *rapid.T, maxTotal int) c06Case {
	c := c06Case{Opts: genC01Opts(t), Kind: genKind(t), CSeed: rapid.Byte().Draw(t, "cseed"), HSeed: rapid.Byte().Draw(t, "hseed")}
	nc := rapid.IntRange(0, 14).Draw(t, "nclient")
	tot := 0
	for i := 0; i < nc && tot < maxTotal; i++ {
		p := c06Pkt{N: genSize(t, "csz", 65535), Cb: -1}
		if rapid.IntRange(0, 11).Draw(t, "mismatch") == 0 {
			switch rapid.IntRange(0, 5).Draw(t, "cbKind") {
			case 0:
				p.Cb = p.N - 1
			case 1:
				p.Cb = p.N / 2
			case 2:
				p.Cb = 0
			case 3:
				p.Cb = p.N + 1
			case 4:
				p.Cb = p.N + 100
			case 5:
				p.Cb = 65535
			}
			if p.Cb < 0 || p.Cb > 65535 || p.Cb == p.N {
				p.Cb = -1
			}
		}
		tot += p.N
		c.CPkts = append(c.CPkts, p)
	}
	nh := rapid.IntRange(0, 14).Draw(t, "nhost")
	tot = 0
	for i := 0; i < nh && tot < maxTotal; i++ {
		n := genSize(t, "hsz", 1<<20)
		if rapid.IntRange(0, 15).Draw(t, "hbig") == 0 {
			n = rapid.IntRange(20000, maxTotal).Draw(t, "hbigsz")
		}
		if n == 0 {
			n = 1
		}
		tot += n
		c.HWrites = append(c.HWrites, n)
	}
	for i := 0; i < len(c.CPkts)+len(c.HWrites); i++ {
		c.Sched = append(c.Sched, rapid.Bool().Draw(t, "who"))
	}
	c.EndWithLast = c.Kind == "legacy" && rapid.IntRange(0, 3).Draw(t, "endWithLast") == 0
	if rapid.IntRange(0, 2).Draw(t, "tails") == 0 {
		for range c.CPkts {
			c.Tails = append(c.Tails, rapid.SampledFrom([]int{0, 0, 1, 1, 2}).Draw(t, "tail"))
		}
	}
	if rapid.IntRange(0, 2).Draw(t, "grouped") == 0 {
		for i := range c.CPkts {
			_ = i
			c.Group = append(c.Group, rapid.IntRange(1, 4).Draw(t, "group"))
		}
	}
	return c
}

// stream content depends on the absolute position so that loss, duplication and reordering are visible;
// it never contains a zero byte, so that invented filler is visible too.
func streamBytes(seed byte, off, n int) []byte {
	b := make([]byte, n)
	for i := range b {
		p := off + i
		v := byte(p) ^ byte(p>>8)*31 ^ byte(p>>16)*17 ^ seed
		if v == 0 {
			v = 0xA5
		}
		b[i] = v
	}
	return b
}

func pollDataPayload(c gwc.Conn, want int, d time.Duration) (payload []byte, perr error, ended bool) {
	deadline := time.Now().Add(d)
	// the payload cannot be complete before that many bytes have arrived at all: wait for that first (cheap), decode after
	c.WaitBytes(want, d)
	for {
		payload = payload[:0]
		var pkts [][]byte
		var rest []byte
		if c.Kind() == "ws" {
			for _, u := range c.Units() {
				p, r := tsgu.SplitStream(u)
				if len(p) != 1 || r != nil {
					return nil, fmt.Errorf("a websocket message does not hold exactly one packet (%d bytes)", len(u)), false
				}
				pkts = append(pkts, p...)
			}
		} else {
			pkts, rest = tsgu.SplitStream(c.Stream())
		}
		_ = rest
		for _, p := range pkts {
			r, err := tsgu.Decode(p)
			if err != nil {
				return nil, err, false
			}
			if r.Type == tsgu.PktData {
				payload = append(payload, r.Payload...)
			}
		}
		ended = c.WaitEOF(0)
		if len(payload) >= want || ended || time.Now().After(deadline) {
			return append([]byte(nil), payload...), nil, ended
		}
		time.Sleep(200 * time.Microsecond)
	}
}

func runC06On(c c06Case, o gwOpts, tgt gwc.Target) *Violation {
	w := W()
	snap := w.snap()
	defer w.observe(snap, 0)
	conn, err := gwc.Dial(c.Kind, tgt, sess.NewConnID())
	if err != nil {
		return viol("c06/open", "transport did not open: %v", err)
	}
	defer conn.Close()
	setup, _ := render(histCfg{Opts: o, Kind: c.Kind}, []PktSpec{{K: "hs", Caps: o.serverCaps()}, {K: "tc", Cookie: map[bool]string{true: "valid:A", false: "none"}[o.TokenAuth]}, {K: "ta"}, {K: "cc", Host: "A"}}, "127.0.0.1")
	for _, u := range setup {
		if err := conn.Send(u); err != nil {
			return viol("c06/setup", "send failed during set-up: %v", err)
		}
	}
	host := w.L["A"].WaitAccept(snap["A"]+1, 30*time.Second)
	if host == nil {
		return viol("c06/setup", "no backend connection after a valid set-up; got %d units", len(conn.Units()))
	}
	// expected streams
	var hostStream []byte
	hoff := 0
	type cand struct{ b []byte }
	// client side: candidates because an over-long cblen may contribute nothing or the carried bytes
	cands := [][]byte{{}}
	overlongAt := []int{} // lengths of candidate prefixes at which the tunnel may legitimately have ended
	coff := 0
	var cunits [][]byte
	for _, p := range c.CPkts {
		data := streamBytes(c.CSeed, coff, p.N)
		coff += p.N
		cunits = append(cunits, tsgu.DataRaw(data, p.Cb))
		switch {
		case p.Cb < 0 || p.Cb == p.N:
			for i := range cands {
				cands[i] = append(cands[i], data...)
			}
		case p.Cb < p.N:
			for i := range cands {
				cands[i] = append(cands[i], data[:p.Cb]...)
			}
		default: // declared longer than carried
			var more [][]byte
			for i := range cands {
				overlongAt = append(overlongAt, len(cands[i]))
				more = append(more, append(append([]byte(nil), cands[i]...), data...))
			}
			if len(cands) < 8 {
				cands = append(cands, more...)
			}
		}
	}
	legacyGroups := map[int][][]byte{}
	var hchunks [][]byte
	for _, n := range c.HWrites {
		ch := streamBytes(c.HSeed, hoff, n)
		hoff += n
		hchunks = append(hchunks, ch)
		hostStream = append(hostStream, ch...)
	}
	// run the schedule; host writes happen on their own goroutine so that both directions overlap
	hq := make(chan []byte, len(hchunks)+1)
	hdone := make(chan error, 1)
	go func() {
		var e error
		for ch := range hq {
			if e == nil {
				e = host.Write(ch)
			}
		}
		hdone <- e
	}()
	// coalesce client packets into transport units
	if len(c.Group) > 0 {
		var grouped [][]byte
		for i := 0; i < len(cunits); {
			n := 1
			if i < len(c.Group) && c.Group[i] > 1 {
				n = c.Group[i]
			}
			if i+n > len(cunits) {
				n = len(cunits) - i
			}
			if lg, ok := conn.(*gwc.Legacy); ok && n > 1 {
				grouped = append(grouped, nil) // marker: sent through SendChunks below
				grp := cunits[i : i+n]
				legacyGroups[len(grouped)-1] = grp
				_ = lg
			} else {
				var u []byte
				for _, x := range cunits[i : i+n] {
					u = append(u, x...)
				}
				grouped = append(grouped, u)
			}
			i += n
		}
		cunits = grouped
	}
	// non-data packets sharing a transport unit with the data in front of them
	for i := range cunits {
		if i >= len(c.Tails) || c.Tails[i] == 0 {
			continue
		}
		tail := tsgu.Keepalive()
		if c.Tails[i] == 2 {
			tail = tsgu.Packet(0x0C, []byte{9, 9})
		}
		if _, isLegacy := conn.(*gwc.Legacy); isLegacy {
			g, ok := legacyGroups[i]
			if !ok {
				g = [][]byte{cunits[i]}
			}
			legacyGroups[i] = append(append([][]byte{}, g...), tail)
		} else {
			cunits[i] = append(append([]byte{}, cunits[i]...), tail...)
		}
	}
	sendUnit := func(i int) error {
		if lg, ok := conn.(*gwc.Legacy); ok && c.EndWithLast && i == len(cunits)-1 {
			if g, grouped := legacyGroups[i]; grouped {
				lg.SendChunks(g[:len(g)-1])
				lg.SyncPeer()
				return lg.SendWithEnd(g[len(g)-1])
			}
			return lg.SendWithEnd(cunits[i])
		}
		if g, ok := legacyGroups[i]; ok {
			lg := conn.(*gwc.Legacy)
			err := lg.SendChunks(g)
			lg.SyncPeer()
			return err
		}
		return conn.Send(cunits[i])
	}
	// the client ends RDG_IN_DATA with its last unit: that ends the tunnel, so the unit waits until the client has
	// everything the host wrote
	_, isLegacyConn := conn.(*gwc.Legacy)
	deferLast := isLegacyConn && c.EndWithLast && len(cunits) > 0
	nSched := len(cunits)
	if deferLast {
		nSched--
	}
	ci, hi := 0, 0
	var sendErr error
	for _, who := range c.Sched {
		if who && ci < nSched {
			if sendErr == nil {
				sendErr = sendUnit(ci)
			}
			ci++
		} else if !who && hi < len(hchunks) {
			hq <- hchunks[hi]
			hi++
		}
	}
	for ; ci < nSched; ci++ {
		if sendErr == nil {
			sendErr = sendUnit(ci)
		}
	}
	for ; hi < len(hchunks); hi++ {
		hq <- hchunks[hi]
	}
	close(hq)
	herr := <-hdone
	// host -> client: wait until the client has everything the host wrote (then the relay goroutine is idle)
	got, perr, ended := pollDataPayload(conn, len(hostStream), 30*time.Second)
	if perr != nil {
		return viol("c06/client-packet-malformed", "a packet sent to the client is not well-formed: %v", perr)
	}
	mayEnd := len(overlongAt) > 0
	if !bytes.Equal(got, hostStream) && !(ended && mayEnd) {
		return viol("c06/host-to-client", "client received %d payload bytes, host wrote %d (first difference at %d, host write error %v, tunnel ended %v)",
			len(got), len(hostStream), firstDiff(got, hostStream), herr, ended)
	}
	if ended && mayEnd && !bytes.HasPrefix(hostStream, got) {
		return viol("c06/host-to-client", "client received bytes the host did not write (first difference at %d)", firstDiff(got, hostStream))
	}
	// client -> host: a CLOSE_CHANNEL after the data is answered (or ends the tunnel) only after every earlier
	// data packet has been processed
	if deferLast {
		if sendErr == nil {
			sendErr = sendUnit(len(cunits) - 1)
		}
	} else {
		conn.Send(tsgu.CloseChannel())
	}
	if c.Kind == "ws" {
		conn.WaitEOF(30 * time.Second)
	} else {
		conn.WaitInClosed(30 * time.Second)
	}
	// the tunnel has ended: the gateway closes the host connection, and what it wrote before is all there is
	host.WaitEOF(30 * time.Second)
	host.Settle()
	rx := host.Received()
	for _, cd := range cands {
		if bytes.Equal(rx, cd) {
			return nil
		}
	}
	if mayEnd {
		for _, cd := range cands {
			for _, at := range overlongAt {
				if at <= len(cd) && bytes.Equal(rx, cd[:at]) {
					return nil // the tunnel ended at the malformed packet
				}
			}
		}
	}
	want := cands[0]
	sig := "c06/client-to-host"
	if len(rx) > 0 && bytes.IndexByte(rx, 0) >= 0 {
		sig = "c06/client-to-host/invented-bytes"
	}
	return viol(sig, "host received %d bytes, the declared payloads are %d bytes (first difference at %d; %d candidate streams because of over-long length fields; send error %v)",
		len(rx), len(want), firstDiff(rx, want), len(cands), sendErr)
}

func classifyC06(c c06Case) (bool, []string) {
	ct, ht := 0, 0
	mism, boundary := false, false
	for _, p := range c.CPkts {
		ct += p.N
		if p.Cb >= 0 {
			mism = true
		}
		if p.N >= 4085 && p.N <= 4087 || p.N == 4096 || p.N == 65535 {
			boundary = true
		}
	}
	for _, n := range c.HWrites {
		ht += n
	}
	cl := []string{"kind=" + c.Kind}
	if mism {
		cl = append(cl, "cblen-mismatch")
	}
	if ct > 4086 {
		cl = append(cl, "client>buffer")
	}
	if ht > 4086 {
		cl = append(cl, "host>buffer")
	}
	if ct > 0 && ht > 0 {
		cl = append(cl, "bidirectional")
	}
	if len(c.Group) > 0 {
		cl = append(cl, "coalesced-units")
	}
	if c.EndWithLast && c.Kind == "legacy" && len(c.CPkts) > 0 {
		cl = append(cl, "body-ends-with-last-unit")
	}
	return ct > 4086 || ht > 4086 || mism || boundary || (ct > 0 && ht > 0), cl
}

func TestC06_INP(t *testing.T) {
	max := 256 << 10
	if os.Getenv("VERIF_TIER") == "thorough" {
		max = 2 << 20
	}
	runProp(t, "C06_INP", func(t *rapid.T) c06Case { return genC06(t, max) }, classifyC06, func(c c06Case) *Violation {
		o := resolveHosts(c.Opts)
		return withGateway(mkGateway(o), func() *Violation {
			return runC06On(c, o, inpTarget(userHeader(o, W().User)...))
		})
	})
}

func TestC06_BIN(t *testing.T) {
	runProp(t, "C06_BIN", func(t *rapid.T) c06Case { return genC06(t, 256<<10) }, classifyC06, func(c c06Case) *Violation {
		o := resolveHosts(c.Opts)
		in, tgt, err := binFor(o, W().User)
		if err != nil {
			return viol("bin/start", "%v", err)
		}
		if v := runC06On(c, o, tgt); v != nil {
			return v
		}
		return binHealthQuick(in)
	})
}

// ---- one side stops draining for a while, the other keeps sending; then everything must still arrive ----

type c06Stall struct {
	Opts    gwOpts   `json:"gateway"`
	Kind    string   `json:"transport"`
	Who     string   `json:"who_stalls"` // client (stops reading what the host sends) | host (stops reading what the client sends)
	StallMs int      `json:"stall_ms"`
	During  []string `json:"client_sends_during_stall"` // ka | data | unk (client stall only: the client still writes)
	CloseAtEnd bool  `json:"close_channel_during_stall,omitempty"` // client stall only: the last thing the client sends while not reading is CLOSE_CHANNEL
	Others  int      `json:"other_tunnels_relaying_meanwhile,omitempty"` // client stall only: further tunnels whose hosts send while the write to the stalled client is blocked
	Seed    byte     `json:"seed"`
}

func runC06Stall(c c06Stall, o gwOpts, tgt gwc.Target) *Violation {
	w := W()
	snap := w.snap()
	defer w.observe(snap, 0)
	conn, err := gwc.Dial(c.Kind, tgt, sess.NewConnID())
	if err != nil {
		return viol("c06/open", "transport did not open: %v", err)
	}
	defer conn.Close()
	setup, _ := render(histCfg{Opts: o, Kind: c.Kind}, []PktSpec{{K: "hs", Caps: o.serverCaps()}, {K: "tc", Cookie: map[bool]string{true: "valid:A", false: "none"}[o.TokenAuth]}, {K: "ta"}, {K: "cc", Host: "A"}}, "127.0.0.1")
	for _, u := range setup {
		if err := conn.Send(u); err != nil {
			return viol("c06/setup", "send failed during set-up: %v", err)
		}
	}
	host := w.L["A"].WaitAccept(snap["A"]+1, 30*time.Second)
	if host == nil {
		return viol("c06/setup", "no backend connection after a valid set-up; got %d units", len(conn.Units()))
	}
	defer host.Close()
	desc := fmt.Sprintf("%s, the %s does not read for %d ms", c.Kind, c.Who, c.StallMs)
	stall := time.Duration(c.StallMs) * time.Millisecond
	if c.Who == "client" {
		ws := conn.(*gwc.WS)
		ws.Pause(true)
		// the host writes until its writes stall
		total := 0
		for total < 96<<20 {
			b := streamBytes(c.Seed, total, 32768)
			host.C.SetWriteDeadline(time.Now().Add(250 * time.Millisecond))
			n, err := host.C.Write(b)
			total += n
			if err != nil {
				if ne, ok := err.(net.Error); ok && ne.Timeout() {
					break
				}
				return viol("c06/stall/host-write", "the host's connection broke while the client was not reading (%s): %v", desc, err)
			}
		}
		// meanwhile other tunnels of the same gateway relay host data to clients that do read
		for k := 0; k < c.Others; k++ {
			before := len(w.L["A"].Conns())
			oc, err := gwc.Dial("ws", tgt, sess.NewConnID())
			if err != nil {
				return viol("c06/open", "further tunnel did not open: %v", err)
			}
			defer oc.Close()
			for _, u := range setup {
				oc.Send(u)
			}
			oh := w.L["A"].WaitAccept(before+1, 30*time.Second)
			if oh == nil {
				return viol("c06/setup", "no backend connection for a further tunnel")
			}
			defer oh.Close()
			sentO := 0
			for j := 0; j < 60; j++ {
				b := streamBytes(c.Seed+byte(7*k+3), sentO, 1500+37*j)
				if oh.Write(b) != nil {
					break
				}
				sentO += len(b)
			}
			gotO, perr, _ := pollDataPayload(oc, sentO, 20*time.Second)
			if perr != nil {
				return viol("c06/stall/malformed", "further tunnel %d: %v (%s)", k, perr, desc)
			}
			if wantO := streamBytes(c.Seed+byte(7*k+3), 0, sentO); !bytes.Equal(gotO, wantO) {
				return viol("c06/stall/other-tunnel", "further tunnel %d: its host wrote %d bytes, its client received %d (first difference at %d) (%s)", k, sentO, len(gotO), firstDiff(gotO, wantO), desc)
			}
		}
		// meanwhile the client still talks
		var c2h []byte
		for i, k := range c.During {
			switch k {
			case "ka":
				conn.Send(tsgu.Keepalive())
			case "unk":
				conn.Send(tsgu.Packet(0x0C, []byte{1, 2, 3}))
			case "data":
				b := streamBytes(c.Seed+1, len(c2h), 500+i)
				c2h = append(c2h, b...)
				conn.Send(tsgu.Data(b))
			}
		}
		if c.CloseAtEnd {
			// the client asks for the channel to be closed while it still does not read: the answer is built while
			// the relay's write is blocked; it must arrive as what it is, after an intact prefix of the host's stream
			conn.Send(tsgu.Data([]byte("x"))) // a channel is closed from the state in which data flows
			conn.Send(tsgu.CloseChannel())
			time.Sleep(stall)
			ws.Pause(false)
			if !conn.WaitEOF(30 * time.Second) {
				return viol("c16/stall/no-end", "the tunnel did not end after CLOSE_CHANNEL (%s)", desc)
			}
			var payload []byte
			units := conn.Units()
			closes := 0
			for i, u := range units {
				p, rest := tsgu.SplitStream(u)
				if len(p) != 1 || rest != nil {
					return viol("c16/stall/malformed", "message %d of %d received after the stall is not exactly one packet (%d bytes: %x) (%s)", i, len(units), len(u), trunc64b(u), desc)
				}
				r, err := tsgu.Decode(p[0])
				if err != nil {
					return viol("c16/stall/malformed", "message %d of %d received after the stall: %v (%s)", i, len(units), err, desc)
				}
				if r.Type == tsgu.PktData {
					payload = append(payload, r.Payload...)
				}
				if r.Type == tsgu.PktCloseChannelResponse && r.Status == 0 {
					closes++
				} else if r.Type != tsgu.PktData && i >= 4 {
					return viol("c16/stall/unexpected-packet", "message %d of %d received after the stall is %v: neither relayed data nor the answer to CLOSE_CHANNEL (%s)", i, len(units), r, desc)
				}
			}
			if want := streamBytes(c.Seed, 0, len(payload)); len(payload) > total || !bytes.Equal(payload, want) {
				return viol("c06/stall/host-to-client", "what the client received before the close is not a prefix of what the host wrote (first difference at %d of %d) (%s)", firstDiff(payload, want), len(payload), desc)
			}
			if closes != 1 {
				return viol("c16/stall/close-response", "CLOSE_CHANNEL was answered %d times with success before the tunnel ended, want once (%d messages received) (%s)", closes, len(units), desc)
			}
			return nil
		}
		time.Sleep(stall)
		ws.Pause(false)
		tail := streamBytes(c.Seed, total, 1000)
		host.C.SetWriteDeadline(time.Now().Add(20 * time.Second))
		if _, err := host.C.Write(tail); err != nil {
			return viol("c06/stall/host-to-client", "the host could not continue after the client resumed reading (%s): %v", desc, err)
		}
		total += len(tail)
		got, perr, ended := pollDataPayload(conn, total, 30*time.Second)
		if perr != nil {
			return viol("c06/stall/malformed", "%v (%s)", perr, desc)
		}
		want := streamBytes(c.Seed, 0, total)
		if !bytes.Equal(got, want) {
			return viol("c06/stall/host-to-client", "the host wrote %d bytes, the client received %d (first difference at %d, tunnel ended=%v) after sending %v while it was not reading (%s)", total, len(got), firstDiff(got, want), ended, c.During, desc)
		}
		if !host.WaitBytes(len(c2h), 30*time.Second) || !bytes.Equal(host.Received(), c2h) {
			return viol("c06/stall/client-to-host", "the client sent %d payload bytes during the stall, the host received %d (%s)", len(c2h), len(host.Received()), desc)
		}
		return nil
	}
	// the host stalls: the client sends until its sends stall, the host resumes after the stall
	host.Pause(true)
	total := 0
	start := time.Now()
	sendDone := make(chan error, 1)
	const totalWant = 24 << 20
	go func() {
		for total < totalWant {
			b := streamBytes(c.Seed, total, 32000)
			if err := conn.Send(tsgu.Data(b)); err != nil {
				sendDone <- err
				return
			}
			total += len(b)
		}
		sendDone <- nil
	}()
	time.Sleep(stall)
	host.Pause(false)
	if err := <-sendDone; err != nil {
		return viol("c06/stall/client-send", "the client could not send its stream although the host resumed reading after %v (%s): %v", time.Since(start), desc, err)
	}
	want := streamBytes(c.Seed, 0, total)
	if !host.WaitBytes(total, 30*time.Second) || !bytes.Equal(host.Received(), want) {
		got := host.Received()
		return viol("c06/stall/client-to-host", "the client sent %d payload bytes, the host received %d (first difference at %d) (%s)", total, len(got), firstDiff(got, want), desc)
	}
	return nil
}

func genC06Stall(t *rapid.T, long bool) c06Stall {
	c := c06Stall{Opts: genC01Opts(t), Kind: genKind(t), Who: rapid.SampledFrom([]string{"client", "client", "host"}).Draw(t, "who"), Seed: rapid.Byte().Draw(t, "seed")}
	c.StallMs = rapid.SampledFrom([]int{50, 300, 300, 1500, 1500, 6500}).Draw(t, "stall")
	if c.Who == "host" {
		c.StallMs = rapid.SampledFrom([]int{300, 2500, 6500}).Draw(t, "hostStall")
		if long {
			c.StallMs = rapid.SampledFrom([]int{300, 2500, 5500, 6500, 8000}).Draw(t, "hostStallLong") // the harness's own sends give up after 10 s
		}
	} else {
		c.Kind = "ws" // only the websocket client of the harness can stop reading
		c.During = rapid.SliceOfN(rapid.SampledFrom([]string{"ka", "ka", "data", "unk"}), 0, 4).Draw(t, "during")
		c.Others = rapid.SampledFrom([]int{0, 0, 1, 3}).Draw(t, "others")
		c.CloseAtEnd = rapid.IntRange(0, 3).Draw(t, "closeAtEnd") == 0
	}
	return c
}

func classifyC06Stall(c c06Stall) (bool, []string) {
	cl := []string{"who=" + c.Who, "kind=" + c.Kind, fmt.Sprintf("stall=%d", c.StallMs), fmt.Sprintf("others=%d", c.Others)}
	if c.CloseAtEnd {
		cl = append(cl, "close-during-stall")
	}
	return true, cl
}

func runC06StallInp(c c06Stall) *Violation {
	o := resolveHosts(c.Opts)
	return withGateway(mkGateway(o), func() *Violation {
		return runC06Stall(c, o, inpTarget(userHeader(o, W().User)...))
	})
}

func TestC06_STALL(t *testing.T) {
	long := os.Getenv("VERIF_TIER") == "thorough"
	runProp(t, "C06_STALL", func(t *rapid.T) c06Stall { return genC06Stall(t, long) }, classifyC06Stall, runC06StallInp)
}

// C16: an answer built while the relay's write to a non-reading client is blocked (and while other tunnels build
// packets of their own) still arrives as the packet it is.
func TestC16_STALL(t *testing.T) {
	runProp(t, "C16_STALL", func(t *rapid.T) c06Stall {
		c := genC06Stall(t, false)
		c.Who, c.Kind, c.CloseAtEnd = "client", "ws", true
		c.StallMs = rapid.SampledFrom([]int{50, 300}).Draw(t, "stall16")
		c.Others = rapid.SampledFrom([]int{1, 2, 3}).Draw(t, "others16")
		return c
	}, classifyC06Stall, runC06StallInp)
}
