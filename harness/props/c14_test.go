package props

import (
	"strings"
	"sync"
	"time"
	"bytes"
	"encoding/base64"
	"encoding/binary"
	"fmt"
	"testing"

	authconfig "github.com/bolkedebruin/rdpgw/cmd/auth/config"
	"github.com/bolkedebruin/rdpgw/cmd/auth/database"
	"github.com/bolkedebruin/rdpgw/cmd/auth/ntlm"
	"github.com/bolkedebruin/rdpgw/shared/auth"
	"pgregory.net/rapid"

	"verif/harness/lab/ntlmx"
)

// C14 — the NTLM verifier authenticates only proof of the configured password.

type c14User struct {
	Name     string `json:"name"`
	Password string `json:"password"`
}

type c14Op struct {
	Op       string `json:"op"` // negotiate | authenticate | replay | garbage | badbase64
	Session  int    `json:"session"`
	Claimed  string `json:"claimed_user,omitempty"`
	KeyUser  string `json:"key_user,omitempty"`
	KeyPass  string `json:"key_password,omitempty"`
	Domain   string `json:"domain,omitempty"`
	ChalOf   int    `json:"challenge_of_session,omitempty"` // -1: the session's own current challenge; -2: an earlier challenge of this session
	Ref      int    `json:"replay_of,omitempty"`            // index of an earlier authenticate op
	Garbage  []byte `json:"garbage,omitempty"`
	ClientCh uint64 `json:"client_challenge,omitempty"`
	FlagsSet   uint32 `json:"flags_set,omitempty"`   // negotiate flags of the authenticate message switched on (key exchange, sign, seal, ...)
	FlagsClear uint32 `json:"flags_clear,omitempty"` // ... and off (128/56-bit, extended session security)
	Layout   string `json:"message_layout,omitempty"`
	B64Tail  string `json:"base64_tail,omitempty"` // appended to the base64 text of the message: the text no longer decodes // MS-NLMP leaves version and MIC optional: "" both present, noversion, short, nomic
}

type c14Case struct {
	Naming string  `json:"session_names,omitempty"` // how the four sessions are named: "" = peers differing in the address, port = same address, different ports, v6port = the same for an IPv6 peer, plain = free-form names
	DB  []c14User `json:"users"`
	Ops []c14Op   `json:"ops"`
}

var c14Names = []string{"alice", "Alice", "ALICE", "bob", "carol", "dave", "admin", "Admin", strings.Repeat("long.account.name-", 8), strings.Repeat("u", 129), strings.Repeat("w", 256), "иван", "EXAMPLE\\alice", "example.com\\bob", "nobody"}
var c14Passwords = []string{"", "pw-a", "pw-b", "Pässwörd-ü", "pw-a", "correct horse", "correct horse ", " pw-a", "pw-b\n", "\tpw-b", " ", "pw-€uro", "пароль"}

func genC14(t *rapid.T) c14Case {
	var c c14Case
	c.Naming = rapid.SampledFrom([]string{"", "port", "port", "v6port", "plain"}).Draw(t, "naming")
	for i, n := 0, rapid.IntRange(1, 5).Draw(t, "nusers"); i < n; i++ {
		c.DB = append(c.DB, c14User{rapid.SampledFrom(c14Names[:14]).Draw(t, "uname"), rapid.SampledFrom(c14Passwords).Draw(t, "upass")})
	}
	db := map[string]string{}
	for _, u := range c.DB {
		db[u.Name] = u.Password
	}
	nAuth := 0
	for i, n := 0, rapid.IntRange(1, 10).Draw(t, "nops"); i < n; i++ {
		op := c14Op{Session: rapid.IntRange(0, 3).Draw(t, "session")}
		switch k := rapid.IntRange(0, 11).Draw(t, "opKind"); {
		case k <= 3:
			op.Op = "negotiate"
		case k <= 8:
			op.Op = "authenticate"
			nAuth++
			op.Claimed = rapid.SampledFrom(c14Names).Draw(t, "claimed")
			if rapid.IntRange(0, 2).Draw(t, "fromDB") > 0 && len(c.DB) > 0 {
				op.Claimed = c.DB[rapid.IntRange(0, len(c.DB)-1).Draw(t, "dbIdx")].Name
			}
			op.KeyUser, op.KeyPass = op.Claimed, db[op.Claimed]
			switch rapid.IntRange(0, 9).Draw(t, "wrong") {
			case 0:
				op.KeyPass = rapid.SampledFrom(c14Passwords).Draw(t, "wrongPass")
			case 1: // proof computed for another user (cf. primed sessions)
				o := c.DB[rapid.IntRange(0, len(c.DB)-1).Draw(t, "otherIdx")]
				op.KeyUser, op.KeyPass = o.Name, o.Password
			case 2:
				op.KeyPass = op.KeyPass + "x"
			}
			op.Domain = rapid.SampledFrom([]string{"", "", "EXAMPLE", "example.com"}).Draw(t, "domain")
			// an account configured with its domain in front, addressed by the bare name plus that domain in the message's
			// domain field: the configured user name is the qualified one, the bare one is unknown
			if rapid.IntRange(0, 7).Draw(t, "qualified") == 0 {
				for _, u := range c.DB {
					if i := strings.IndexByte(u.Name, '\\'); i > 0 {
						op.Claimed, op.KeyUser, op.KeyPass, op.Domain = u.Name[i+1:], u.Name[i+1:], u.Password, u.Name[:i]
					}
				}
			}
			op.ChalOf = -1
			switch rapid.IntRange(0, 9).Draw(t, "chalSrc") {
			case 0:
				op.ChalOf = rapid.IntRange(0, 3).Draw(t, "otherSession")
			case 1:
				op.ChalOf = -2
			case 2:
				op.ChalOf = -3 // proof computed over an empty (zero-length) server challenge
			}
			op.ClientCh = rapid.Uint64().Draw(t, "clientChallenge")
			if rapid.IntRange(0, 9).Draw(t, "badTail") == 0 {
				op.B64Tail = rapid.SampledFrom([]string{"!", "\"", " QUJD", "====", "-_", "\x00", "%3D"}).Draw(t, "b64tail")
			}
			op.Layout = rapid.SampledFrom([]string{"", "", "", "noversion", "short", "nomic", "v1"}).Draw(t, "layout")
			if rapid.IntRange(0, 5).Draw(t, "oddFlags") == 0 {
				for _, f := range []uint32{0x40000000, 0x10, 0x20, 0x00000002, 0x00000004} {
					if rapid.Bool().Draw(t, "set") {
						op.FlagsSet |= f
					}
				}
				for _, f := range []uint32{0x20000000, 0x80000000, 0x00080000, 0x00000200, 0x00000001} {
					if rapid.Bool().Draw(t, "clear") {
						op.FlagsClear |= f
					}
				}
			}
			// follow-up of the previous attempt in the same session: same session and domain, another named user,
			// proof computed with the previous attempt's user (whose key a careless verifier may still hold)
			if len(c.Ops) > 0 && c.Ops[len(c.Ops)-1].Op == "authenticate" && rapid.IntRange(0, 2).Draw(t, "followUp") == 0 {
				prev := c.Ops[len(c.Ops)-1]
				op.Session, op.Domain, op.ChalOf = prev.Session, prev.Domain, -1
				op.KeyUser, op.KeyPass = prev.Claimed, db[prev.Claimed]
			}
		case k == 9 && nAuth > 0:
			op.Op = "replay"
			op.Ref = rapid.IntRange(0, nAuth-1).Draw(t, "ref")
		case k == 10:
			op.Op = "garbage"
			op.Garbage = rapid.SliceOfN(rapid.Byte(), 0, 60).Draw(t, "garbage")
			if rapid.Bool().Draw(t, "ntlmPrefix") {
				op.Garbage = append([]byte("NTLMSSP\x00\x03\x00\x00\x00"), op.Garbage...)
			}
		default:
			op.Op = "badbase64"
		}
		c.Ops = append(c.Ops, op)
	}
	return c
}

type c14Sess struct {
	chal    *ntlmx.Challenge   // outstanding challenge (nil = none)
	fresh   bool               // no authenticate attempt since the challenge was issued
	earlier []*ntlmx.Challenge // challenges issued before
}

type c14Sent struct {
	msg              string
	claimed, domain  string
	proof, blob      []byte
	oddFlags         bool
	undecodable      bool
}

// nonLatin1: the text has a character above U+00FF (its UTF-16 code unit has a non-zero high byte).
func nonLatin1(s string) bool {
	for _, r := range s {
		if r > 0xff {
			return true
		}
	}
	return false
}

// runC14 gives every verdict failure of a case that involves credentials with characters above U+00FF one signature:
// the NTLM library the verifier is built on derives its keys from the low bytes of the UTF-16 code units only (listed
// finding c14/non-latin1-credentials); other failures, and all failures of other cases, keep their own signatures.
func runC14(c c14Case) *Violation {
	v := runC14Inner(c)
	if v == nil {
		return nil
	}
	nl := false
	for _, u := range c.DB {
		nl = nl || nonLatin1(u.Name) || nonLatin1(u.Password)
	}
	for _, op := range c.Ops {
		nl = nl || nonLatin1(op.Claimed) || nonLatin1(op.KeyUser) || nonLatin1(op.KeyPass) || nonLatin1(op.Domain)
	}
	if nl && (strings.HasPrefix(v.Sig, "c14/valid-exchange-refused") || strings.HasPrefix(v.Sig, "c14/authenticated-without-proof") || strings.HasPrefix(v.Sig, "c14/wrong-username")) {
		v.Sig = "c14/non-latin1-credentials"
	}
	return v
}

func runC14Inner(c c14Case) *Violation {
	var users []authconfig.UserConfig
	db := map[string]string{}
	for _, u := range c.DB {
		users = append(users, authconfig.UserConfig{Username: u.Name, Password: u.Password})
		db[u.Name] = u.Password // later duplicates win, as in the repository's map
	}
	svc := ntlm.NewNTLMAuth(database.NewConfig(users))
	sess := map[int]*c14Sess{}
	get := func(i int) *c14Sess {
		if sess[i] == nil {
			sess[i] = &c14Sess{}
		}
		return sess[i]
	}
	call := func(s int, msg string) (r *auth.NtlmResponse, err error, pv *Violation) {
		defer func() {
			if p := recover(); p != nil {
				pv = viol("c14/panic", "the verifier panicked: %v", p)
			}
		}()
		name := fmt.Sprintf("10.0.0.%d:5000", s)
		switch c.Naming {
		case "port":
			name = fmt.Sprintf("192.0.2.7:%d", 40001+s)
		case "v6port":
			name = fmt.Sprintf("[2001:db8::7]:%d", 50001+s)
		case "plain":
			name = []string{"X", "x", "session two", "3"}[s] // an empty session name is refused by the service
		}
		r, err = svc.Authenticate(&auth.NtlmRequest{Session: name, NtlmMessage: msg})
		return
	}
	var sent []c14Sent
	for i, op := range c.Ops {
		s := get(op.Session)
		switch op.Op {
		case "negotiate":
			r, err, pv := call(op.Session, base64.StdEncoding.EncodeToString(ntlmx.Negotiate()))
			if pv != nil {
				return pv
			}
			if err != nil || r.NtlmMessage == "" || r.Authenticated {
				return viol("c14/negotiate-not-answered", "op %d: a well-formed negotiate message was not answered with a challenge: %v %+v", i, err, r)
			}
			raw, _ := base64.StdEncoding.DecodeString(r.NtlmMessage)
			ch, perr := ntlmx.ParseChallenge(raw)
			if perr != nil {
				return viol("c14/bad-challenge", "op %d: challenge message does not parse: %v", i, perr)
			}
			if s.chal != nil {
				s.earlier = append(s.earlier, s.chal)
			}
			s.chal, s.fresh = ch, true
		case "authenticate", "replay":
			var m c14Sent
			if op.Op == "replay" {
				m = sent[op.Ref%len(sent)]
			} else {
				src := s.chal
				switch {
				case op.ChalOf >= 0:
					src = get(op.ChalOf).chal
				case op.ChalOf == -2 && len(s.earlier) > 0:
					src = s.earlier[len(s.earlier)-1]
				}
				if op.ChalOf == -3 {
					src = &ntlmx.Challenge{ServerChallenge: []byte{}, TargetInfo: []byte{0, 0, 0, 0}}
				}
				if src == nil && op.ChalOf == -1 && len(s.earlier) > 0 {
					src = s.earlier[len(s.earlier)-1] // the exchange is over: the challenge it ended with is the best a client can still present
				}
				if src == nil {
					src = &ntlmx.Challenge{ServerChallenge: []byte{1, 2, 3, 4, 5, 6, 7, 8}, TargetInfo: []byte{0, 0, 0, 0}}
				}
				cc := make([]byte, 8)
				binary.LittleEndian.PutUint64(cc, op.ClientCh)
				msg, blob, proof := ntlmx.Authenticate(ntlmx.AuthSpec{User: op.Claimed, Domain: op.Domain, Workstation: "WS",
					Key: ntlmx.NTOWFv2(op.KeyPass, op.KeyUser, op.Domain), ServerChallenge: src.ServerChallenge, TargetInfo: src.TargetInfo,
					Timestamp: []byte{0, 0x80, 0x3e, 0xd5, 0xde, 0xb1, 0x9d, 0x01}, ClientChallenge: cc, Layout: op.Layout, FlagsSet: op.FlagsSet, FlagsClear: op.FlagsClear})
				m = c14Sent{msg: base64.StdEncoding.EncodeToString(msg) + op.B64Tail, undecodable: op.B64Tail != "", claimed: op.Claimed, domain: op.Domain, proof: proof, blob: blob, oddFlags: op.FlagsSet != 0 || op.FlagsClear != 0 || op.Layout == "v1"} // (the oldest layout is not supported by the library underneath: outcome of a correct proof left open)
				sent = append(sent, m)
			}
			r, err, pv := call(op.Session, m.msg)
			if pv != nil {
				return pv
			}
			// reference verifier: recompute from the configured database only
			justified := false
			if s.chal != nil && db[m.claimed] != "" {
				want := ntlmx.Proof(ntlmx.NTOWFv2(db[m.claimed], m.claimed, m.domain), s.chal.ServerChallenge, m.blob)
				justified = bytes.Equal(want, m.proof)
			}
			desc := fmt.Sprintf("op %d (%s) in session %d: message names %q, database %v, outstanding challenge %v, fresh %v -> Authenticated=%v Username=%q err=%v",
				i, op.Op, op.Session, m.claimed, c.DB, s.chal != nil, s.fresh, r != nil && r.Authenticated, usernameOf(r), err)
			if m.undecodable {
				// the text is not base64: such a message is never authenticated, whatever a lenient decoder salvages from it
				if r != nil && r.Authenticated {
					return viol("c14/authenticated-garbage", "a message whose text does not decode as base64 (tail %q) was authenticated: %s", op.B64Tail, desc)
				}
				s.fresh = false
				continue
			}
			if r != nil && r.Authenticated {
				if !justified {
					return viol("c14/authenticated-without-proof", "reported as authenticated although the message does not prove the configured password of the named user against this session's challenge: %s", desc)
				}
				if r.Username != m.claimed {
					return viol("c14/wrong-username", "authenticated, but the returned user name differs from the configured/named one: %s", desc)
				}
			} else if justified && s.fresh && !m.oddFlags {
				// (with unusual negotiate flags the outcome of a correct proof is left open: the library underneath does
				// not support every combination; what such a message must never do is authenticate somebody else or keep
				// the exchange alive - checked by the other clauses)
				return viol("c14/valid-exchange-refused", "a client that knows the password and follows the exchange was not authenticated: %s", desc)
			}
			s.fresh = false
			if (err != nil || (r != nil && r.Authenticated)) && s.chal != nil {
				s.earlier = append(s.earlier, s.chal)
				s.chal = nil // the exchange is over
			}
		case "garbage", "badbase64":
			msg := base64.StdEncoding.EncodeToString(op.Garbage)
			if op.Op == "badbase64" {
				msg = "!!!not*base64!!!"
			}
			r, _, pv := call(op.Session, msg)
			if pv != nil {
				return pv
			}
			if r != nil && r.Authenticated {
				return viol("c14/authenticated-garbage", "op %d: an undecodable message was authenticated as %q", i, r.Username)
			}
			// whether an undecodable message ends the exchange is left open: the challenge may or may not be outstanding
			// afterwards (fresh = false: a correct proof may now be refused, but may also still be accepted)
			s.fresh = false
		}
	}
	return nil
}

func usernameOf(r *auth.NtlmResponse) string {
	if r == nil {
		return ""
	}
	return r.Username
}

func TestC14_FN(t *testing.T) {
	runProp(t, "C14_FN", genC14, func(c c14Case) (bool, []string) {
		auths := map[int]int{}
		nt := false
		var cl []string
		for _, op := range c.Ops {
			if op.Op == "authenticate" {
				auths[op.Session]++
				if auths[op.Session] >= 2 {
					nt = true
					cl = append(cl, "second-attempt-in-session")
				}
				if op.KeyUser != op.Claimed {
					nt = true
					cl = append(cl, "key-of-other-user")
				}
				if op.ChalOf != -1 {
					nt = true
					cl = append(cl, "foreign-or-stale-challenge")
				}
			}
			if op.Op == "replay" {
				nt = true
				cl = append(cl, "replay")
			}
		}
		return nt || len(auths) > 0, cl
	}, runC14)
}

// ---- C14_CONC: authenticate messages of one session (one challenge) that are processed at the same time ----

type c14ConcMsg struct {
	Claimed string `json:"claimed_user"`
	KeyUser string `json:"key_user"`
	KeyPass string `json:"key_password"`
	PadKiB  int    `json:"trailing_kib,omitempty"` // ignored bytes behind the message: decoding takes that much longer
	DelayUs int    `json:"delay_us"`
}

type c14ConcCase struct {
	DB     []c14User    `json:"users"`
	Msgs   []c14ConcMsg `json:"messages"`
	Rounds int          `json:"rounds"`
}

func genC14Conc(t *rapid.T) c14ConcCase {
	names := []string{"alice", "bob", "mallory", "carol"}
	c := c14ConcCase{Rounds: rapid.IntRange(4, 24).Draw(t, "rounds")}
	n := rapid.IntRange(2, 4).Draw(t, "users")
	for i := 0; i < n; i++ {
		c.DB = append(c.DB, c14User{Name: names[i], Password: "password of " + names[i]})
	}
	k := rapid.IntRange(2, 4).Draw(t, "msgs")
	for i := 0; i < k; i++ {
		m := c14ConcMsg{Claimed: c.DB[rapid.IntRange(0, n-1).Draw(t, "claimed")].Name}
		ku := c.DB[rapid.IntRange(0, n-1).Draw(t, "keyUser")]
		if rapid.IntRange(0, 2).Draw(t, "honest") == 0 {
			ku = c14User{Name: m.Claimed, Password: "password of " + m.Claimed}
		}
		m.KeyUser, m.KeyPass = ku.Name, ku.Password
		m.PadKiB = rapid.SampledFrom([]int{0, 0, 64, 1024, 2500}).Draw(t, "pad")
		m.DelayUs = rapid.SampledFrom([]int{0, 0, 50, 100, 200, 400, 800}).Draw(t, "delay")
		c.Msgs = append(c.Msgs, m)
	}
	return c
}

func runC14Conc(c c14ConcCase) *Violation {
	var users []authconfig.UserConfig
	db := map[string]string{}
	for _, u := range c.DB {
		users = append(users, authconfig.UserConfig{Username: u.Name, Password: u.Password})
		db[u.Name] = u.Password
	}
	svc := ntlm.NewNTLMAuth(database.NewConfig(users))
	pads := map[int][]byte{}
	for round := 0; round < c.Rounds; round++ {
		session := fmt.Sprintf("203.0.113.7:%d", 50000+round)
		r, err := svc.Authenticate(&auth.NtlmRequest{Session: session, NtlmMessage: base64.StdEncoding.EncodeToString(ntlmx.Negotiate())})
		if err != nil || r.NtlmMessage == "" {
			return viol("c14/negotiate-not-answered", "round %d: no challenge: %v %+v", round, err, r)
		}
		raw, _ := base64.StdEncoding.DecodeString(r.NtlmMessage)
		ch, perr := ntlmx.ParseChallenge(raw)
		if perr != nil {
			return viol("c14/bad-challenge", "round %d: %v", round, perr)
		}
		type res struct {
			r   *auth.NtlmResponse
			err error
			pan any
		}
		out := make([]res, len(c.Msgs))
		texts := make([]string, len(c.Msgs))
		justified := make([]bool, len(c.Msgs))
		for i, m := range c.Msgs {
			cc := make([]byte, 8)
			binary.LittleEndian.PutUint64(cc, uint64(round*16+i+1))
			msg, blob, proof := ntlmx.Authenticate(ntlmx.AuthSpec{User: m.Claimed, Workstation: "WS", Key: ntlmx.NTOWFv2(m.KeyPass, m.KeyUser, ""),
				ServerChallenge: ch.ServerChallenge, TargetInfo: ch.TargetInfo, Timestamp: []byte{0, 0x80, 0x3e, 0xd5, 0xde, 0xb1, 0x9d, 0x01}, ClientChallenge: cc})
			if pads[m.PadKiB] == nil {
				pads[m.PadKiB] = make([]byte, m.PadKiB*1024)
			}
			texts[i] = base64.StdEncoding.EncodeToString(append(msg, pads[m.PadKiB]...))
			justified[i] = bytes.Equal(ntlmx.Proof(ntlmx.NTOWFv2(db[m.Claimed], m.Claimed, ""), ch.ServerChallenge, blob), proof)
		}
		var wg sync.WaitGroup
		start := make(chan struct{})
		for i := range c.Msgs {
			wg.Add(1)
			go func(i int) {
				defer wg.Done()
				defer func() {
					if p := recover(); p != nil {
						out[i].pan = p
					}
				}()
				<-start
				// the offsets move with the round, so that different overlaps are met
				time.Sleep(time.Duration(c.Msgs[i].DelayUs+37*(round%8)) * time.Microsecond)
				out[i].r, out[i].err = svc.Authenticate(&auth.NtlmRequest{Session: session, NtlmMessage: texts[i]})
			}(i)
		}
		close(start)
		wg.Wait()
		for i, m := range c.Msgs {
			if out[i].pan != nil {
				return viol("c14/panic", "the verifier panicked: %v", out[i].pan)
			}
			if r := out[i].r; r != nil && r.Authenticated {
				desc := fmt.Sprintf("round %d, message %d of %d sent together in one session: names %q, proof computed with the password of %q; answers: %s", round, i, len(c.Msgs), m.Claimed, m.KeyUser, func() string {
					var s []string
					for j := range out {
						s = append(s, fmt.Sprintf("[%d names %q key of %q -> %v %q]", j, c.Msgs[j].Claimed, c.Msgs[j].KeyUser, out[j].r != nil && out[j].r.Authenticated, usernameOf(out[j].r)))
					}
					return strings.Join(s, " ")
				}())
				if !justified[i] {
					return viol("c14/authenticated-without-proof/concurrent", "reported as authenticated although the message does not prove the configured password of the named user: %s", desc)
				}
				if r.Username != m.Claimed {
					return viol("c14/wrong-username", "authenticated, but as another user than the one named: %s", desc)
				}
			}
		}
	}
	return nil
}

func TestC14_CONC(t *testing.T) {
	runProp(t, "C14_CONC", genC14Conc, func(c c14ConcCase) (bool, []string) {
		var cl []string
		forged, honest := false, false
		for _, m := range c.Msgs {
			if m.KeyUser != m.Claimed {
				forged = true
			} else {
				honest = true
			}
			if m.PadKiB >= 1024 {
				cl = append(cl, "slow-to-decode")
			}
		}
		if forged && honest {
			cl = append(cl, "forged-beside-honest")
		}
		return forged, cl
	}, runC14Conc)
}
