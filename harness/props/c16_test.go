package props

import (
	"bytes"
	"fmt"
	"testing"
	"time"

	"github.com/bolkedebruin/rdpgw/cmd/rdpgw/protocol"
	"pgregory.net/rapid"

	"verif/harness/lab/gwc"
	"verif/harness/lab/model"
	"verif/harness/lab/sess"
	"verif/harness/lab/tsgu"
)

// C16 — responses are well-formed MS-TSGU packets reporting true outcome and policy.

type c16Case struct {
	Opts    gwOpts    `json:"gateway"`
	Kind    string    `json:"transport"`
	Outcome string    `json:"outcome"`
	Hist    []PktSpec `json:"history"`
}

var c16Outcomes = []string{"accepted", "accepted-close", "accepted-host-data", "wrong-phase-0", "wrong-phase-1", "wrong-phase-2", "wrong-phase-3", "rejected-cookie", "denied-host", "unreachable-host", "caps-mismatch", "caps-none-offered"}

func genRedirect(t *rapid.T) protocol.RedirectFlags {
	m := rapid.IntRange(0, 127).Draw(t, "redirMask")
	return protocol.RedirectFlags{Clipboard: m&1 != 0, Port: m&2 != 0, Drive: m&4 != 0, Printer: m&8 != 0, Pnp: m&16 != 0, DisableAll: m&32 != 0, EnableAll: m&64 != 0}
}

func genIdle(t *rapid.T) int {
	if rapid.Bool().Draw(t, "idleSpecial") {
		return rapid.SampledFrom([]int{-2147483648, -1000, -1, 0, 1, 10, 30, 2147483647}).Draw(t, "idle")
	}
	return int(rapid.Int32().Draw(t, "idleAny"))
}

// scriptHistory builds the packet history of an outcome script.
func scriptHistory(o gwOpts, outcome string) []PktSpec {
	caps := o.serverCaps()
	cookie := "none"
	if o.TokenAuth {
		cookie = "valid:A"
	}
	hs, tc, ta, cc := PktSpec{K: "hs", Caps: caps, Major: 3, Minor: 9}, PktSpec{K: "tc", Cookie: cookie}, PktSpec{K: "ta"}, PktSpec{K: "cc", Host: "A"}
	data := PktSpec{K: "data", Payload: []byte("hello host")}
	var h []PktSpec
	switch outcome {
	case "accepted", "accepted-host-data":
		h = []PktSpec{hs, tc, ta, cc, data}
	case "accepted-close":
		h = []PktSpec{hs, tc, ta, cc, data, {K: "close"}}
	case "wrong-phase-0":
		h = []PktSpec{tc}
	case "wrong-phase-1":
		h = []PktSpec{hs, ta}
	case "wrong-phase-2":
		h = []PktSpec{hs, tc, cc}
	case "wrong-phase-3":
		h = []PktSpec{hs, tc, ta, tc}
	case "rejected-cookie":
		tc.Cookie = "wrongkey:A"
		if !o.TokenAuth {
			tc.Cookie = "garbage"
		}
		h = []PktSpec{hs, tc, ta}
	case "denied-host":
		cc.Host = "D"
		h = []PktSpec{hs, tc, ta, cc}
	case "unreachable-host":
		cc.Host = "C"
		if o.TokenAuth {
			tc.Cookie = "valid:C"
		}
		h = []PktSpec{hs, tc, ta, cc}
	case "caps-none-offered": // the client offers no mechanism at all (a mismatch unless the server requires none either)
		hs.Caps = 0
		h = []PktSpec{hs, tc}
	case "caps-mismatch":
		hs.Caps = ^caps & 0x7
		if caps == 0 {
			hs.Caps = 1
		}
		h = []PktSpec{hs, tc}
	}
	return append(h, PktSpec{K: "hs", Caps: caps}, PktSpec{K: "hs", Caps: caps})
}

func genC16(t *rapid.T) c16Case {
	o := genC01Opts(t)
	o.Redirect = genRedirect(t)
	o.IdleTimeout = genIdle(t)
	oc := rapid.SampledFrom(c16Outcomes).Draw(t, "outcome")
	return c16Case{Opts: o, Kind: genKind(t), Outcome: oc, Hist: scriptHistory(o, oc)}
}

// refRedir is the reference encoding of the redirection policy (MS-TSGU HTTP_TUNNEL_REDIR_*).
func refRedir(f protocol.RedirectFlags) uint32 {
	if f.DisableAll {
		return tsgu.RedirDisableAll
	}
	if f.EnableAll {
		return tsgu.RedirEnableAll
	}
	var r uint32
	if !f.Drive {
		r |= tsgu.RedirDisableDrive
	}
	if !f.Printer {
		r |= tsgu.RedirDisablePrint
	}
	if !f.Port {
		r |= tsgu.RedirDisablePort
	}
	if !f.Clipboard {
		r |= tsgu.RedirDisableClip
	}
	if !f.Pnp {
		r |= tsgu.RedirDisablePnp
	}
	return r
}

func checkC16(o gwOpts, obs model.Obs) *Violation {
	for _, r := range obs.Resps {
		if r.Type != tsgu.PktTunnelAuthResponse || r.Status != 0 {
			continue
		}
		if r.FieldsPresent&0x1 == 0 || r.FieldsPresent&0x2 == 0 {
			return viol("c16/ta-fields-missing", "tunnel-authorization response does not report redirection flags and idle timeout (fieldsPresent=%#x)", r.FieldsPresent)
		}
		if want := refRedir(o.Redirect); r.RedirFlags != want {
			return viol("c16/redir-flags", "redirection flags %#x, reference encoding of %+v is %#x", r.RedirFlags, o.Redirect, want)
		}
		want := uint32(0)
		if o.IdleTimeout > 0 {
			want = uint32(o.IdleTimeout)
		}
		if r.IdleTimeout != want {
			return viol("c16/idle-timeout", "idle timeout %d reported, configured %d (negative must be reported as 0)", r.IdleTimeout, o.IdleTimeout)
		}
	}
	return nil
}

// runC16HostData: an accepted session in which the host also sends, so that data packets towards the client are
// among the packets whose framing is checked.
func runC16HostData(c c16Case, o gwOpts, tgt gwc.Target) *Violation {
	w := W()
	snap := w.snap()
	defer w.observe(snap, 0)
	conn, err := gwc.Dial(c.Kind, tgt, sess.NewConnID())
	if err != nil {
		return viol("c16/open", "%v", err)
	}
	defer conn.Close()
	units, _ := render(histCfg{Opts: o, Kind: c.Kind}, c.Hist[:5], "127.0.0.1")
	for _, u := range units {
		conn.Send(u)
	}
	host := w.L["A"].WaitAccept(snap["A"]+1, 10*time.Second)
	if host == nil {
		return viol("c16/setup", "no backend connection in an accepted session")
	}
	var sent []byte
	for _, n := range []int{1, 61, 64, 200, 4086, 5000} {
		b := streamBytes(3, len(sent), n)
		host.Write(b)
		sent = append(sent, b...)
	}
	got, perr, _ := pollDataPayload(conn, len(sent), 10*time.Second)
	if perr != nil {
		return viol("c16/data-packet-malformed", "a data packet sent to the client is not well-formed: %v", perr)
	}
	if !bytes.Equal(got, sent) {
		return viol("c16/data-packet-content", "client got %d payload bytes of %d", len(got), len(sent))
	}
	return nil
}

func runC16On(c c16Case, o gwOpts, tgt gwc.Target) *Violation {
	if c.Outcome == "accepted-host-data" {
		if v := runC16HostData(c, o, tgt); v != nil {
			return v
		}
	}
	units, evs := render(histCfg{Opts: o, Kind: c.Kind}, c.Hist, "127.0.0.1")
	obs, _, v := runHistory(c.Kind, tgt, units)
	if v != nil {
		return v
	}
	if f := model.CheckTunnel(model.Cfg{ServerCaps: o.serverCaps(), TokenAuth: o.TokenAuth}, evs, obs); f != nil {
		return viol(f.Sig, "%s\n outcome script: %s\n history: %s\n responses: %v", f.Msg, c.Outcome, historyString(c.Hist), obs.Resps)
	}
	return checkC16(o, obs)
}

func classifyC16(c c16Case) (bool, []string) {
	f := c.Opts.Redirect
	set := f.Clipboard || f.Port || f.Drive || f.Printer || f.Pnp || f.DisableAll || f.EnableAll
	cl := []string{"outcome=" + c.Outcome, "kind=" + c.Kind}
	if c.Opts.IdleTimeout < 0 {
		cl = append(cl, "negative-timeout")
	}
	return set || c.Outcome != "accepted", cl
}

func TestC16_INP(t *testing.T) {
	runProp(t, "C16_INP", genC16, classifyC16, func(c c16Case) *Violation {
		o := resolveHosts(c.Opts)
		return withGateway(mkGateway(o), func() *Violation {
			return runC16On(c, o, inpTarget(userHeader(o, W().User)...))
		})
	})
}

type c16Bin struct {
	Opts  gwOpts   `json:"gateway"`
	Batch []struct {
		Kind    string `json:"transport"`
		Outcome string `json:"outcome"`
	} `json:"batch"`
}

func TestC16_BIN(t *testing.T) {
	runProp(t, "C16_BIN", func(t *rapid.T) c16Bin {
		o := genC01Opts(t)
		o.Redirect = genRedirect(t)
		o.IdleTimeout = genIdle(t)
		c := c16Bin{Opts: o}
		n := rapid.IntRange(1, 6).Draw(t, "batch")
		for i := 0; i < n; i++ {
			c.Batch = append(c.Batch, struct {
				Kind    string `json:"transport"`
				Outcome string `json:"outcome"`
			}{genKind(t), rapid.SampledFrom(c16Outcomes).Draw(t, "outcome")})
		}
		return c
	}, func(c c16Bin) (bool, []string) {
		var cl []string
		for _, b := range c.Batch {
			cl = append(cl, "outcome="+b.Outcome)
		}
		return true, cl
	}, func(c c16Bin) *Violation {
		o := resolveHosts(c.Opts)
		in, tgt, err := binFor(o, W().User)
		if err != nil {
			return viol("bin/start", "%v", err)
		}
		for i, b := range c.Batch {
			sub := c16Case{Opts: c.Opts, Kind: b.Kind, Outcome: b.Outcome, Hist: scriptHistory(o, b.Outcome)}
			if v := runC16On(sub, o, tgt); v != nil {
				v.Msg = fmt.Sprintf("sub-case %d (%s over %s): %s", i, b.Outcome, b.Kind, v.Msg)
				return v
			}
		}
		return binHealth(in)
	})
}
