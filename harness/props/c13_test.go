package props

import (
	"bufio"
	"io"
	"strconv"
	"encoding/base64"
	"fmt"
	"net/http"
	"net/url"
	"reflect"
	"strings"
	"testing"
	"time"

	"github.com/bolkedebruin/rdpgw/cmd/rdpgw/identity"
	"pgregory.net/rapid"

	"verif/harness/lab/gwc"
	"verif/harness/lab/gwproc"
	"verif/harness/lab/ntlmx"
	"verif/harness/lab/sess"
	"verif/harness/lab/idp"
)

// C13 — a session becomes authenticated only through a verified OpenID login.

type c13Op struct {
	Jar   int    `json:"jar"`
	Op    string `json:"op"`              // connect | login | mutate | foreign-cookie | fresh
	Fault string `json:"fault,omitempty"` // login: "" | unknown-state | other-instance-state | state-of-other-jar | refuse | no_id_token | bad_sig | alg_none | hs256_secret | wrong_iss | wrong_aud | expired | no_username | nonstring_username
	User  string `json:"user,omitempty"`
	Claim string `json:"claim,omitempty"`
	Tab2  string `json:"then_second_tab_logs_in_as,omitempty"` // login: a second tab of the same browser asked for /connect before the login; after this login it completes its own, as that account
	Kind  string `json:"kind,omitempty"` // mutate: subst | trunc | append
	Pos   int    `json:"pos,omitempty"`
	Val   int    `json:"val,omitempty"`
}

type c13Case struct {
	NTLM  bool    `json:"ntlm_also_enabled,omitempty"`
	Store string  `json:"session_store"`
	Ops   []c13Op `json:"ops"`
}

var c13Faults = []string{"", "", "", "redeemed-code", "state-is-client-address", "unknown-state", "other-instance-state", "state-of-other-jar", "refuse", "no_id_token", "bad_sig", "alg_none", "hs256_secret", "wrong_iss", "wrong_aud", "expired", "expired_20s", "expired_5s", "no_username", "nonstring_username"}

func genC13(t *rapid.T) c13Case {
	c := c13Case{Store: rapid.SampledFrom([]string{"cookie", "file"}).Draw(t, "store")}
	c.NTLM = rapid.IntRange(0, 2).Draw(t, "ntlm") == 0
	for i, n := 0, rapid.IntRange(1, 9).Draw(t, "nops"); i < n; i++ {
		op := c13Op{Jar: rapid.IntRange(0, 2).Draw(t, "jar")}
		switch k := rapid.IntRange(0, 9).Draw(t, "opKind"); {
		case k <= 1:
			op.Op = "connect"
		case k <= 6:
			op.Op = "login"
			op.Fault = rapid.SampledFrom(c13Faults).Draw(t, "fault")
			op.User = rapid.SampledFrom([]string{"alice", "bob@example.com", "Zoë Ünïcode", "carol", "alice ", " bob@example.com"}).Draw(t, "user")
			op.Claim = rapid.SampledFrom([]string{"preferred_username", "preferred_username", "unique_name", "upn", "username"}).Draw(t, "claim")
			if op.Fault == "" && rapid.IntRange(0, 3).Draw(t, "tab2") == 0 {
				op.Tab2 = rapid.SampledFrom([]string{"dave", "erin@example.com", "alice"}).Draw(t, "tab2User")
			}
		case k == 7 && c.NTLM && rapid.Bool().Draw(t, "gatewayAuth"):
			// correct NTLM credentials on the tunnel endpoint, presenting this browser session's cookie: that
			// authenticates the request, never the browser session
			op.Op = "gateway-auth"
			op.User = rapid.SampledFrom([]string{"1", "2", "3"}).Draw(t, "ntlmUser")
		case k == 7:
			op.Op = "mutate"
			op.Kind = rapid.SampledFrom([]string{"subst", "subst", "trunc", "append"}).Draw(t, "mutKind")
			op.Pos, op.Val = rapid.IntRange(0, 2000).Draw(t, "pos"), rapid.IntRange(0, 63).Draw(t, "val")
		case k == 8 && rapid.Bool().Draw(t, "oldCookie"):
			op.Op = "pre-login-cookie"
		case k == 8:
			op.Op = "foreign-cookie"
		default:
			op.Op = "fresh"
		}
		c.Ops = append(c.Ops, op)
	}
	return c
}

type c13Jar struct {
	preLogin string // session cookie this jar held before its last successful login
	b      *browser
	auth   bool
	user   string
	unspec bool // the cookie was changed without changing what it decodes to
	broken bool // holds a cookie this gateway did not produce
}

const sessionCookie = "RDPGWSESSION"

func sessionCookieOf(b *browser, in *gwproc.Inst) *http.Cookie {
	u, _ := url.Parse(in.URL("/"))
	for _, c := range b.Jar.Cookies(u) {
		if c.Name == sessionCookie {
			return c
		}
	}
	return nil
}

func setSessionCookie(b *browser, in *gwproc.Inst, v string) {
	u, _ := url.Parse(in.URL("/"))
	b.Jar.SetCookies(u, []*http.Cookie{{Name: sessionCookie, Value: v, Path: "/"}})
}

func runC13(c c13Case) *Violation {
	w := W()
	o := webOpts{Store: c.Store, HostSelection: "roundrobin", Hosts: []string{"10.1.1.1:3389"}, VerifyIP: true, AlsoNTLM: c.NTLM}
	in, err := webInstance(o)
	if err != nil {
		return viol("bin/start", "%v", err)
	}
	other, err := webInstance(webOpts{Store: c.Store, HostSelection: "roundrobin", Hosts: []string{"10.1.1.1:3389"}, VerifyIP: true, Instance: 2, RandomKeys: true})
	if err != nil {
		return viol("bin/start", "%v", err)
	}
	jars := []*c13Jar{{b: newBrowser()}, {b: newBrowser()}, {b: newBrowser()}}
	var issued []string   // states this instance handed out
	var redeemed []string // codes the identity provider has exchanged in this run
	for i, op := range c.Ops {
		j := jars[op.Jar]
		what := fmt.Sprintf("op %d: jar %d %s %s", i, op.Jar, op.Op, op.Fault)
		switch op.Op {
		case "fresh":
			jars[op.Jar] = &c13Jar{b: newBrowser()}
			j = jars[op.Jar]
		case "connect":
		case "login":
			state, r, err := j.b.beginLogin(in, "/connect")
			if err != nil {
				return viol("c13/http", "%s: %v", what, err)
			}
			if state == "" {
				if j.auth || j.unspec {
					break // already logged in: /connect serves the file
				}
				if j.broken {
					break
				}
				return viol("c13/no-redirect", "%s: an unauthenticated session was not redirected to the identity provider: %d %s", what, r.Code, shorten(r.Body))
			}
			issued = append(issued, state)
			state2 := ""
			if op.Tab2 != "" {
				if s2, _, err2 := j.b.beginLogin(in, "/connect"); err2 == nil && s2 != "" {
					state2 = s2
					issued = append(issued, s2)
				}
			}
			spec := idp.CodeSpec{Sub: "sub-" + op.User, Username: op.User, Claim: op.Claim}
			useState := state
			good := true
			switch op.Fault {
			case "":
			case "unknown-state":
				useState, good = "00112233445566778899aabbccddeeff", false
			case "state-is-client-address": // never issued as a state, though the gateway knows the value well
				useState, good = "127.0.0.1", false
			case "other-instance-state":
				ob := newBrowser()
				s2, _, _ := ob.beginLogin(other, "/connect")
				useState, good = s2, false
			case "state-of-other-jar":
				if len(issued) > 1 {
					useState = issued[len(issued)-2] // issued by this gateway within the last two minutes: acceptable
				}
			default:
				spec.Fault, good = op.Fault, false
			}
			code := w.IdP.NewCode(spec)
			if op.Fault == "redeemed-code" {
				// own, fresh state - but a code some earlier login of this run has already redeemed (the provider exchanges a code once)
				spec.Fault, good = "", false
				code = "code-never-issued"
				if len(redeemed) > 0 {
					code = redeemed[len(redeemed)-1]
				}
			}
			before := ""
			if ck := sessionCookieOf(j.b, in); ck != nil {
				before = ck.Value
			}
			cr, err := j.b.callback(in, useState, code)
			if err != nil {
				return viol("c13/http", "%s: %v", what, err)
			}
			if good {
				if cr.Code != http.StatusFound {
					return viol("c13/good-login-refused", "%s: a valid callback was answered %d %s", what, cr.Code, shorten(cr.Body))
				}
				if !j.auth {
					j.preLogin = before
				}
				j.auth, j.user, j.unspec, j.broken = true, op.User, false, false
				redeemed = append(redeemed, code)
				if state2 != "" {
					// the other tab: its own state, a fresh code, a valid ID token for another account - a verified login
					// like any other, after which the session is that account's
					code2 := w.IdP.NewCode(idp.CodeSpec{Sub: "sub-" + op.Tab2, Username: op.Tab2, Claim: op.Claim})
					cr2, err2 := j.b.callback(in, state2, code2)
					if err2 != nil {
						return viol("c13/http", "%s: %v", what, err2)
					}
					if cr2.Code != http.StatusFound {
						return viol("c13/good-login-refused", "%s: the valid callback of the second tab was answered %d %s", what, cr2.Code, shorten(cr2.Body))
					}
					j.user = op.Tab2
					redeemed = append(redeemed, code2)
				}
			}
			// how a failing callback is answered is not part of the statement; what matters is checked right below:
			// the session must not be served a connection file afterwards
		case "mutate":
			ck := sessionCookieOf(j.b, in)
			if ck == nil || ck.Value == "" {
				break
			}
			v := []byte(ck.Value)
			var nv string
			switch op.Kind {
			case "subst":
				p := op.Pos % len(v)
				v[p] = b64chars[op.Val]
				nv = string(v)
			case "trunc":
				nv = string(v[:op.Pos%len(v)])
			case "append":
				nv = string(v) + string(b64chars[op.Val])
			}
			if nv == ck.Value {
				break
			}
			setSessionCookie(j.b, in, nv)
			a, e1 := base64.URLEncoding.DecodeString(ck.Value)
			b, e2 := base64.URLEncoding.DecodeString(nv)
			same := e1 == nil && e2 == nil && reflect.DeepEqual(a, b)
			if same {
				j.unspec = true
			} else {
				j.auth, j.broken = false, true
			}
		case "gateway-auth":
			if sessionCookieOf(j.b, in) == nil {
				j.b.get(in, "/connect") // obtain a session first
			}
			if st, err := ntlmGatewayRequest(in, j.b, op.User, c05Password(op.User)); err != nil {
				return viol("c13/http", "%s: %v", what, err)
			} else if st == 401 || st == 0 {
				return viol("c13/setup", "%s: correct NTLM credentials were not accepted on the tunnel endpoint (%d)", what, st)
			}
		case "pre-login-cookie":
			// the cookie this session held before it logged in describes an unauthenticated session
			if j.preLogin == "" || c.Store == "file" {
				break // file store: the cookie only names the server-side session, which the login did authenticate
			}
			old := j.preLogin
			jars[op.Jar] = &c13Jar{b: newBrowser()}
			j = jars[op.Jar]
			setSessionCookie(j.b, in, old)
		case "foreign-cookie":
			// a session that is authenticated on another instance (other keys)
			ob := newBrowser()
			if r, _, err := ob.login(other, idp.CodeSpec{Sub: "sub-mallory", Username: "mallory"}); err != nil || r.Code != http.StatusFound {
				return viol("c13/setup", "%s: cannot log in on the second instance: %v %d", what, err, r.Code)
			}
			if ck := sessionCookieOf(ob, other); ck != nil {
				setSessionCookie(j.b, in, ck.Value)
				j.auth, j.broken, j.unspec = false, true, false
			}
		}
		// invariant: /connect answers 200 with a file only to an authenticated session
		r, err := j.b.get(in, "/connect")
		if err != nil {
			return viol("c13/http", "%s: %v", what, err)
		}
		hasToken := strings.Contains(r.Body, "gatewayaccesstoken")
		switch {
		case r.Code == 200 || hasToken:
			if !j.auth && !j.unspec {
				sig := "c13/unauthenticated-session-served"
				if op.Op == "login" && op.Fault != "" {
					sig += "/" + op.Fault
				} else if j.broken {
					sig += "/altered-or-foreign-cookie"
				}
				return viol(sig, "%s: /connect served a connection file to a session that never completed a verified login (store %s): %d %s", what, c.Store, r.Code, shorten(r.Body))
			}
			m, ok := parseRDP(r.Body)
			if !ok {
				return viol("c13/file-unparseable", "%s: connection file does not parse", what)
			}
			if got := rdpString(m, "username"); got != strings.TrimSpace(j.user) || !strings.Contains(r.Body, "username:s:"+j.user+"\r\n") {
				return viol("c13/wrong-user", "%s: the session logged in as %q, the file says %q (line-exact comparison)", what, j.user, got)
			}
		default:
			if j.auth && !j.unspec {
				return viol("c13/authenticated-session-lost", "%s: a logged-in session (user %q) got %d instead of its file: %s", what, j.user, r.Code, shorten(r.Body))
			}
		}
		if j.broken {
			jars[op.Jar] = &c13Jar{b: newBrowser()} // continue with a clean jar
		}
	}
	if v := binHealth(in); v != nil {
		return v
	}
	return nil
}

func TestC13_BIN(t *testing.T) {
	runProp(t, "C13_BIN", genC13, func(c c13Case) (bool, []string) {
		nt := false
		failed := false
		var cl []string
		for _, op := range c.Ops {
			if op.Op == "login" {
				cl = append(cl, "fault="+op.Fault)
				if op.Fault != "" {
					failed = true
				}
			} else {
				cl = append(cl, "op="+op.Op)
				if failed || op.Op == "mutate" || op.Op == "foreign-cookie" {
					nt = true
				}
			}
		}
		return nt || failed, append(cl, "store="+c.Store)
	}, runC13)
}

// ---- FN: the identity stored in a session is restored unchanged ----

type c13Ident struct {
	Users []c13User `json:"identities"`
	Order []int     `json:"decode_order"`
}
type c13User struct {
	Auth    bool              `json:"authenticated"`
	Name    string            `json:"user_name"`
	Domain  string            `json:"domain"`
	Display string            `json:"display_name"`
	Email   string            `json:"email"`
	AuthAt  int64             `json:"auth_time_unix"`
	Expiry  int64             `json:"expiry_unix"`
	Attrs   map[string]string `json:"string_attributes"`
	IntAttr map[string]int    `json:"int_attributes"`
}

func TestC13_IDENT(t *testing.T) {
	runProp(t, "C13_IDENT", func(t *rapid.T) c13Ident {
		var c c13Ident
		str := rapid.SampledFrom([]string{"", "alice", "bob@example.com", "Zoë", "x y", "DOMAIN"})
		for i, n := 0, rapid.IntRange(1, 5).Draw(t, "n"); i < n; i++ {
			u := c13User{Auth: rapid.Bool().Draw(t, "auth"), Name: str.Draw(t, "name"), Domain: str.Draw(t, "domain"), Display: str.Draw(t, "display"), Email: str.Draw(t, "email"),
				Attrs: map[string]string{}, IntAttr: map[string]int{}}
			if rapid.Bool().Draw(t, "hasTime") {
				u.AuthAt = rapid.Int64Range(1, 4e9).Draw(t, "authAt")
				u.Expiry = rapid.Int64Range(1, 4e9).Draw(t, "expiry")
			}
			for k, m := 0, rapid.IntRange(0, 3).Draw(t, "nattr"); k < m; k++ {
				u.Attrs[rapid.SampledFrom([]string{"clientIp", "accessToken", "remoteAddr", "x"}).Draw(t, "ak")] = str.Draw(t, "av")
			}
			if rapid.Bool().Draw(t, "intAttr") {
				u.IntAttr["n"] = rapid.Int().Draw(t, "iv")
			}
			c.Users = append(c.Users, u)
		}
		for i, n := 0, rapid.IntRange(1, 10).Draw(t, "norder"); i < n; i++ {
			c.Order = append(c.Order, rapid.IntRange(0, len(c.Users)-1).Draw(t, "idx"))
		}
		return c
	}, func(c c13Ident) (bool, []string) { return len(c.Users) > 1, nil }, func(c c13Ident) *Violation {
		blobs := make([][]byte, len(c.Users))
		origs := make([]*identity.User, len(c.Users))
		for i, u := range c.Users {
			id := identity.NewUser()
			id.SetAuthenticated(u.Auth)
			id.SetUserName(u.Name)
			id.SetDomain(u.Domain)
			id.SetDisplayName(u.Display)
			id.SetEmail(u.Email)
			if u.AuthAt != 0 {
				id.SetAuthTime(time.Unix(u.AuthAt, 0))
				id.SetExpiry(time.Unix(u.Expiry, 0))
			}
			for k, v := range u.Attrs {
				id.SetAttribute(k, v)
			}
			for k, v := range u.IntAttr {
				id.SetAttribute(k, v)
			}
			b, err := id.Marshal()
			if err != nil {
				return viol("c13/marshal-error", "identity %d does not marshal: %v", i, err)
			}
			blobs[i], origs[i] = b, id
		}
		for step, idx := range c.Order {
			got := identity.NewUser()
			if err := got.Unmarshal(blobs[idx]); err != nil {
				return viol("c13/unmarshal-error", "step %d: %v", step, err)
			}
			o := origs[idx]
			if got.Authenticated() != o.Authenticated() || got.UserName() != o.UserName() || got.Domain() != o.Domain() || got.DisplayName() != o.DisplayName() ||
				got.Email() != o.Email() || got.SessionId() != o.SessionId() || !got.AuthTime().Equal(o.AuthTime()) || !got.Expiry().Equal(o.Expiry()) {
				return viol("c13/identity-not-restored", "step %d: identity %d restored as {auth=%v user=%q domain=%q display=%q email=%q}, stored {auth=%v user=%q domain=%q display=%q email=%q}",
					step, idx, got.Authenticated(), got.UserName(), got.Domain(), got.DisplayName(), got.Email(), o.Authenticated(), o.UserName(), o.Domain(), o.DisplayName(), o.Email())
			}
			ga, oa := got.Attributes(), o.Attributes()
			if len(ga) != len(oa) && !(len(ga) == 0 && len(oa) == 0) {
				return viol("c13/identity-not-restored", "step %d: attributes restored as %v, stored %v", step, ga, oa)
			}
			for k, v := range oa {
				if !reflect.DeepEqual(ga[k], v) {
					return viol("c13/identity-not-restored", "step %d: attribute %q restored as %v, stored %v", step, k, ga[k], v)
				}
			}
			// "restored unchanged" also means: it goes on behaving like the stored one. The same later update (a second
			// login on the same session names another user) applied to a copy of the stored identity and to the restored
			// one must leave them equal.
			oc := identity.NewUser()
			if b2, err := o.Marshal(); err == nil && oc.Unmarshal(b2) == nil {
				nn := "renamed-" + fmt.Sprint(step)
				ref := identity.NewUser()
				ref.SetUserName(o.UserName())
				ref.SetDisplayName(c.Users[idx].Display) // as the case set it ("" = never set)
				ref.SetUserName(nn)
				got.SetUserName(nn)
				if got.UserName() != ref.UserName() || got.DisplayName() != ref.DisplayName() {
					return viol("c13/identity-not-restored/after-update", "step %d: identity %d (display name %q) restored, then renamed to %q: it is now {user=%q display=%q}, an identity built the same way without the session round trip is {user=%q display=%q}",
						step, idx, c.Users[idx].Display, nn, got.UserName(), got.DisplayName(), ref.UserName(), ref.DisplayName())
				}
			}
		}
		return nil
	})
}

// ---- real-time probe: a state older than two minutes is refused (thorough tier) ----

type c13Expiry struct {
	Store string `json:"session_store"`
	AgeS  int    `json:"state_age_s"`
}

func TestC13_EXPIRY(t *testing.T) {
	runProp(t, "C13_EXPIRY", func(t *rapid.T) c13Expiry {
		return c13Expiry{Store: rapid.SampledFrom([]string{"cookie", "file"}).Draw(t, "store"), AgeS: rapid.SampledFrom([]int{125, 140}).Draw(t, "age")}
	}, func(c c13Expiry) (bool, []string) { return true, []string{"store=" + c.Store} }, func(c c13Expiry) *Violation {
		in, err := webInstance(webOpts{Store: c.Store, HostSelection: "roundrobin", Hosts: []string{"10.1.1.1:3389"}, VerifyIP: true})
		if err != nil {
			return viol("bin/start", "%v", err)
		}
		b := newBrowser()
		state, _, err := b.beginLogin(in, "/connect")
		if err != nil || state == "" {
			return viol("c13/setup", "no state issued: %v", err)
		}
		// callbacks that fail on the way do not give the state a new lease of life: one with a code the provider refuses
		// at 60 s, one with a bad ID token at 100 s
		time.Sleep(60 * time.Second)
		b.callback(in, state, "code-the-provider-does-not-know")
		time.Sleep(40 * time.Second)
		b.callback(in, state, W().IdP.NewCode(idp.CodeSpec{Sub: "s", Username: "late", Fault: "bad_sig"}))
		time.Sleep(time.Duration(c.AgeS-100) * time.Second)
		code := W().IdP.NewCode(idp.CodeSpec{Sub: "s", Username: "late"})
		// the session cookie itself has MaxAge 120: a browser would have dropped it; present the callback with a fresh jar too
		for _, br := range []*browser{b, newBrowser()} {
			cr, err := br.callback(in, state, code)
			if err != nil {
				return viol("c13/http", "%v", err)
			}
			r, _ := br.get(in, "/connect")
			if r.Code == 200 || strings.Contains(r.Body, "gatewayaccesstoken") {
				return viol("c13/expired-state-accepted", "a callback with a state issued %d s ago authenticated the session (callback answered %d)", c.AgeS, cr.Code)
			}
			code = W().IdP.NewCode(idp.CodeSpec{Sub: "s", Username: "late"})
		}
		return nil
	})
}

// ntlmGatewayRequest performs a complete NTLM exchange on the tunnel endpoint over one connection, sending the
// browser's cookies along (and keeping cookies the gateway sets), with a request that is not hijacked.
func ntlmGatewayRequest(in *gwproc.Inst, b *browser, user, pass string) (int, error) {
	c, err := gwc.Target{Addr: in.Addr, TLS: in.TLS}.Dial()
	if err != nil {
		return 0, err
	}
	defer c.Close()
	br := bufio.NewReader(c)
	u, _ := url.Parse(in.URL("/"))
	send := func(auth string) (httpHead, error) {
		var sb strings.Builder
		fmt.Fprintf(&sb, "RDG_IN_DATA %s HTTP/1.1\r\nHost: %s\r\nRdg-Connection-Id: %s\r\nContent-Length: 0\r\n", gwc.GatewayPath, in.Addr, sess.NewConnID())
		var cks []string
		for _, ck := range b.Jar.Cookies(u) {
			cks = append(cks, ck.Name+"="+ck.Value)
		}
		if len(cks) > 0 {
			fmt.Fprintf(&sb, "Cookie: %s\r\n", strings.Join(cks, "; "))
		}
		fmt.Fprintf(&sb, "Authorization: %s\r\n\r\n", auth)
		c.SetDeadline(time.Now().Add(10 * time.Second))
		if _, err := c.Write([]byte(sb.String())); err != nil {
			return httpHead{}, err
		}
		code, hdr, err := readHead(br)
		if err != nil {
			return httpHead{}, err
		}
		if cl := hdr["content-length"]; len(cl) > 0 {
			n, _ := strconv.Atoi(cl[0])
			io.CopyN(io.Discard, br, int64(n))
		}
		if sc := hdr["set-cookie"]; len(sc) > 0 {
			resp := http.Response{Header: http.Header{"Set-Cookie": sc}}
			b.Jar.SetCookies(u, resp.Cookies())
		}
		return httpHead{code, hdr}, nil
	}
	h1, err := send("NTLM " + base64.StdEncoding.EncodeToString(ntlmx.Negotiate()))
	if err != nil {
		return 0, err
	}
	if h1.Code != 401 {
		return h1.Code, nil
	}
	t3 := ntlmType3([]string{"NTLM"}, h1.Hdr["www-authenticate"], user, pass)
	if t3 == "" {
		return 401, nil
	}
	h2, err := send(t3)
	return h2.Code, err
}
