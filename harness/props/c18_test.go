package props

import (
	"bytes"
	"io"
	"encoding/json"
	"fmt"
	"net"
	"net/http"
	"net/url"
	"os"
	"path/filepath"
	"sort"
	"strconv"
	"strings"
	"sync"
	"testing"
	"time"

	"github.com/bolkedebruin/gokrb5/v8/keytab"
	"github.com/bolkedebruin/rdpgw/cmd/rdpgw/config"
	"pgregory.net/rapid"

	"verif/harness/lab/gwc"
	"verif/harness/lab/gwproc"
	"verif/harness/lab/idp"
	"verif/harness/lab/sess"
	"verif/harness/lab/tsgu"
)

// C18 — unsafe or inconsistent configurations are refused at startup.

type c18Case struct {
	Auth      []string          `json:"authentication"`
	TLS       string            `json:"tls"` // disable | certificate
	TLSWord   string            `json:"tls_setting_spelled,omitempty"` // with a certificate: what the Tls setting says ("" = auto). Everything but "disable" means TLS
	HostSel   string            `json:"host_selection"`
	QueryKey  bool              `json:"query_token_key"`
	EmptyHosts bool             `json:"hosts_present_but_empty,omitempty"` // (only with 0 hosts) the file says "Hosts: []" instead of leaving the setting out
	Issuer    bool              `json:"query_token_issuer,omitempty"`      // a query-token issuer is configured (it does not make up for a missing key)
	EmptyKey  bool              `json:"query_token_key_present_but_empty,omitempty"` // (only without a key) the setting is there, its value is the empty string
	NHosts    int               `json:"hosts"`
	Keytab    bool              `json:"keytab"`
	TokenAuth string            `json:"token_auth"` // true | false | default
	Via       map[string]string `json:"delivered_via"` // setting -> file | env | both (file carries a conflicting value, the environment wins)
}

var c18AuthSets = [][]string{{}, {"openid"}, {"local"}, {"basic"}, {"ntlm"}, {"kerberos"}, {"openid", "local"}, {"openid", "ntlm"}, {"openid", "kerberos"},
	{"local", "ntlm"}, {"local", "kerberos"}, {"ntlm", "kerberos"}, {"openid", "local", "kerberos"}, {"openid", "local", "ntlm"}, {"openid", "ntlm", "kerberos"}, {"local", "ntlm", "kerberos"}, {"openid", "basic", "ntlm"}}

var c18Settings = []string{"auth", "tls", "hostsel", "querykey", "hosts", "keytab", "tokenauth"}

func genC18(t *rapid.T) c18Case {
	c := c18Case{Via: map[string]string{}}
	c.Auth = rapid.SampledFrom(c18AuthSets).Draw(t, "auth")
	c.TLS = rapid.SampledFrom([]string{"disable", "certificate"}).Draw(t, "tls")
	if c.TLS == "certificate" && rapid.IntRange(0, 2).Draw(t, "tlsWord") == 0 {
		c.TLSWord = rapid.SampledFrom([]string{"enable", "on", "Auto", "manual", "yes", "Disable"}).Draw(t, "tlsSpelling")
	}
	// other spellings are no mode the documentation names: whatever the gateway makes of them, it must not end up
	// running signed host selection without a key (probed below on instances that start)
	c.HostSel = rapid.SampledFrom([]string{"roundrobin", "signed", "signed", "signed", "unsigned", "any", "Signed", "SIGNED", "signed ", "RoundRobin"}).Draw(t, "hostsel")
	c.QueryKey = rapid.Bool().Draw(t, "querykey")
	c.EmptyKey = !c.QueryKey && rapid.Bool().Draw(t, "emptykey")
	c.Issuer = rapid.Bool().Draw(t, "issuer")
	c.NHosts = rapid.SampledFrom([]int{0, 1, 1, 2, 3}).Draw(t, "nhosts")
	c.EmptyHosts = c.NHosts == 0 && rapid.Bool().Draw(t, "emptyHosts")
	c.Keytab = rapid.Bool().Draw(t, "keytab")
	c.TokenAuth = rapid.SampledFrom([]string{"true", "false", "default"}).Draw(t, "tokenauth")
	for _, s := range c18Settings {
		c.Via[s] = rapid.SampledFrom([]string{"file", "file", "env", "both"}).Draw(t, "via-"+s)
	}
	return c
}

func has(l []string, s string) bool { return contains(l, s) }

// mustRefuse is the predicate of the statement.
func (c c18Case) mustRefuse() (bool, string) {
	openid, krb, ntlm := has(c.Auth, "openid"), has(c.Auth, "kerberos"), has(c.Auth, "ntlm")
	local := has(c.Auth, "local") || has(c.Auth, "basic")
	switch {
	case openid && c.TokenAuth == "false":
		return true, "openid without cookie authentication"
	case local && c.TLS == "disable":
		return true, "local authentication with TLS disabled"
	case ntlm && krb:
		return true, "ntlm together with kerberos"
	case krb && !c.Keytab:
		return true, "kerberos without keytab"
	case c.HostSel == "signed" && !c.QueryKey:
		return true, "signed host selection without query-token key"
	case c.NHosts == 0:
		return true, "no hosts"
	}
	return false, ""
}

var (
	c18Once  sync.Once
	c18Cert  string
	c18Key   string
	c18Ktab  string
	c18Krb5  string
)

func c18Files() {
	c18Once.Do(func() {
		dir := gwproc.WorkDir()
		c18Cert, c18Key, _ = gwproc.SelfSignedCert(dir)
		kt := keytab.New()
		kt.AddEntry("HTTP/gw.example.test", "EXAMPLE.COM", "keytab-password", time.Now(), 1, 18)
		b, _ := kt.Marshal()
		c18Ktab = filepath.Join(dir, "gw.keytab")
		os.WriteFile(c18Ktab, b, 0o600)
		c18Krb5 = filepath.Join(dir, "krb5.conf")
		os.WriteFile(c18Krb5, []byte("[libdefaults]\n default_realm = EXAMPLE.COM\n dns_lookup_kdc = false\n[realms]\n EXAMPLE.COM = {\n  kdc = 127.0.0.1:88\n }\n"), 0o600)
	})
}

// build renders the configuration file and the environment for the case.
func (c c18Case) build() (gwproc.Config, []string) {
	c18Files()
	w := W()
	cfg := gwproc.Config{}
	var env []string
	put := func(setting, section, key, envName string, val any, decoy any) {
		via := c.Via[setting]
		envVal := func(v any) string {
			switch x := v.(type) {
			case []string:
				return strings.Join(x, " ")
			case bool:
				return strconv.FormatBool(x)
			default:
				return fmt.Sprint(x)
			}
		}
		if val == nil { // setting absent
			if via == "both" && decoy != nil {
				// nothing to conflict with: leave it out everywhere
			}
			return
		}
		switch via {
		case "env":
			env = append(env, envName+"="+envVal(val))
		case "both":
			cfg.Set(section, key, decoy)
			env = append(env, envName+"="+envVal(val))
		default:
			cfg.Set(section, key, val)
		}
	}
	port := gwproc.FreePort()
	cfg.Set("Server", "Port", port).Set("Server", "GatewayAddress", "gw.example.test").
		Set("Server", "SessionKey", key32a).Set("Server", "SessionEncryptionKey", key32b).Set("Server", "AuthSocket", theAuth().Socket)
	cfg.Set("OpenId", "ProviderUrl", w.IdP.URL).Set("OpenId", "ClientId", w.IdP.ClientID).Set("OpenId", "ClientSecret", w.IdP.ClientSecret)
	cfg.Set("Kerberos", "Krb5Conf", c18Krb5)
	decoyAuth := []string{"openid"}
	if len(c.Auth) == 1 && c.Auth[0] == "openid" {
		decoyAuth = []string{"ntlm"}
	}
	if len(c.Auth) == 0 {
		cfg.Set("Server", "Authentication", []string{}) // the setting is there, the list is empty (file only: an empty variable is a different thing)
	} else {
		put("auth", "Server", "Authentication", "RDPGW_SERVER__AUTHENTICATION", c.Auth, decoyAuth)
	}
	if c.TLS == "disable" {
		put("tls", "Server", "Tls", "RDPGW_SERVER__TLS", "disable", "auto")
	} else {
		word := "auto"
		if c.TLSWord != "" {
			word = c.TLSWord
		}
		put("tls", "Server", "Tls", "RDPGW_SERVER__TLS", word, "disable")
	}
	cfg.Set("Server", "CertFile", c18Cert).Set("Server", "KeyFile", c18Key)
	decoySel := "roundrobin"
	if c.HostSel == "roundrobin" {
		decoySel = "signed"
	}
	put("hostsel", "Server", "HostSelection", "RDPGW_SERVER__HOST_SELECTION", c.HostSel, decoySel)
	if c.QueryKey {
		put("querykey", "Security", "QueryTokenSigningKey", "RDPGW_SECURITY__QUERY_TOKEN_SIGNING_KEY", testQueryKey, "another-query-signing-key-32-ch!")
	} else if c.EmptyKey {
		// no key: an empty value in the file, an empty variable, or an empty variable blanking a key from the file
		put("querykey", "Security", "QueryTokenSigningKey", "RDPGW_SECURITY__QUERY_TOKEN_SIGNING_KEY", "", "another-query-signing-key-32-ch!")
	}
	if c.Issuer {
		cfg.Set("Security", "QueryTokenIssuer", "portal")
	}
	if c.NHosts == 0 && c.EmptyHosts {
		cfg.Set("Server", "Hosts", []string{})
		if c.Via["hosts"] == "env" || c.Via["hosts"] == "both" {
			// the host list is given by the environment, and it is empty (with "both" it blanks a list from the file)
			env = append(env, "RDPGW_SERVER__HOSTS=")
			if c.Via["hosts"] == "both" {
				cfg.Set("Server", "Hosts", []string{"decoy.example:3389"})
			}
		}
	}
	if c.NHosts > 0 {
		var hs []string
		for i := 0; i < c.NHosts; i++ {
			hs = append(hs, fmt.Sprintf("10.9.8.%d:3389", i+1))
		}
		put("hosts", "Server", "Hosts", "RDPGW_SERVER__HOSTS", hs, []string{"decoy.example:3389"})
	}
	if c.Keytab {
		put("keytab", "Kerberos", "Keytab", "RDPGW_KERBEROS__KEYTAB", c18Ktab, "/nonexistent/decoy.keytab")
	}
	switch c.TokenAuth {
	case "true":
		put("tokenauth", "Caps", "TokenAuth", "RDPGW_CAPS__TOKEN_AUTH", true, false)
	case "false":
		put("tokenauth", "Caps", "TokenAuth", "RDPGW_CAPS__TOKEN_AUTH", false, true)
	}
	return cfg, env
}

const startBound = 8 * time.Second

func runC18(c c18Case) *Violation {
	cfg, env := c.build()
	in, err := gwproc.Start(cfg, gwproc.StartOpts{Env: env, Wait: startBound})
	for try := 0; err == nil && try < 4; try++ {
		// the port is picked here (it is part of the configuration under test): if another process took it between the
		// probe and the child's bind, that says nothing about the configuration - try again with another port
		if ex, _ := in.Exited(); !ex || !strings.Contains(in.Stderr(), "address already in use") {
			break
		}
		in.Remove()
		cfg, env = c.build()
		in, err = gwproc.Start(cfg, gwproc.StartOpts{Env: env, Wait: startBound})
	}
	if err != nil {
		return viol("infra", "%v", err)
	}
	defer func() { in.Stop(); in.Remove() }()
	refuse, why := c.mustRefuse()
	cj, _ := json.Marshal(cfg)
	desc := fmt.Sprintf("auth %v, tls %s, host selection %s, query key %v, hosts %d, keytab %v, token auth %s, delivered %v\n file: %s\n env: %v", c.Auth, c.TLS, c.HostSel, c.QueryKey, c.NHosts, c.Keytab, c.TokenAuth, sortedVia(c.Via), cj, env)
	exited, code := in.Exited()
	if refuse {
		if !exited {
			exited, code = in.WaitExit(2 * time.Second)
		}
		if !exited || in.Listening() {
			return viol("c18/unsafe-config-started/"+strings.ReplaceAll(why, " ", "-"), "the gateway started although the configuration must be refused (%s): %s\n stderr: %s", why, desc, tail(in.Stderr(), 500))
		}
		if code == 0 {
			return viol("c18/refused-with-status-0", "the gateway refused the configuration (%s) but exited with status 0: %s", why, desc)
		}
		return nil
	}
	if !contains([]string{"roundrobin", "signed", "unsigned", "any"}, c.HostSel) || len(c.Auth) == 0 {
		// undocumented spelling: starting or refusing are both acceptable; a started instance is probed
		if exited || !in.Listening() {
			return nil
		}
	}
	if exited || !in.Listening() {
		return viol("c18/good-config-refused", "a consistent configuration did not start (exit %v code %d): %s\n stderr: %s", exited, code, desc, tail(in.Stderr(), 700))
	}
	if c.TLS != "disable" && (has(c.Auth, "local") || has(c.Auth, "basic")) {
		// local authentication is only allowed because TLS is on: a request in the clear must not be asked for Basic credentials
		if conn, derr := net.DialTimeout("tcp", in.Addr, 3*time.Second); derr == nil {
			conn.SetDeadline(time.Now().Add(3 * time.Second))
			fmt.Fprintf(conn, "GET /remoteDesktopGateway/ HTTP/1.1\r\nHost: %s\r\nConnection: close\r\n\r\n", in.Addr)
			rb, _ := io.ReadAll(io.LimitReader(conn, 4096))
			conn.Close()
			if bytes.HasPrefix(rb, []byte("HTTP/1.1 401")) && bytes.Contains(bytes.ToLower(rb), []byte("www-authenticate: basic")) {
				return viol("c18/basic-authentication-in-the-clear", "local authentication with Tls %q: the gateway started and asks for Basic credentials on a connection without TLS: %s\n answer: %q", c.TLSWord, desc, shorten(string(rb)))
			}
		}
	}
	if c.TokenAuth == "false" {
		// whatever the authentication list says: an instance that behaves as an OpenID gateway (its /connect sends the
		// browser to the identity provider) although cookie authentication is off runs the configuration that must be refused
		if r0, err0 := newBrowser().get(in, "/connect"); err0 == nil && r0.Code == http.StatusFound && strings.HasPrefix(r0.Header.Get("Location"), W().IdP.URL) {
			return viol("c18/openid-running-without-cookie-authentication", "the gateway started, cookie authentication is off, and GET /connect redirects to the identity provider (%s): %s", r0.Header.Get("Location"), desc)
		}
	}
	if has(c.Auth, "openid") && !c.QueryKey {
		// behaviour of the running instance: with signed host selection a download needs a host token, and
		// neither a missing host parameter nor a plain configured host name is served
		b := newBrowser()
		if r, _, err := b.login(in, idp.CodeSpec{Sub: "u-c18", Username: "c18user"}); err != nil || r.Code != http.StatusFound {
			return nil // login did not complete (covered by C12/C13); nothing to probe
		}
		r1, err1 := b.get(in, "/connect")
		r2, err2 := b.get(in, "/connect?host="+url.QueryEscape("10.9.8.1:3389"))
		if err1 == nil && err2 == nil && r1.Code == 400 && r2.Code == 400 && strings.Contains(strings.ToLower(r2.Body), "token") {
			return viol("c18/signed-selection-running-without-key", "the gateway runs signed host selection (download without host: %d, with a plain configured host: %d %q) although no query-token key is configured: %s",
				r1.Code, r2.Code, strings.TrimSpace(r2.Body), desc)
		}
	}
	return nil
}

func sortedVia(m map[string]string) string {
	var k []string
	for s, v := range m {
		k = append(k, s+"="+v)
	}
	sort.Strings(k)
	return strings.Join(k, " ")
}

func TestC18_START(t *testing.T) {
	runProp(t, "C18_START", genC18, func(c c18Case) (bool, []string) {
		r, why := c.mustRefuse()
		cl := []string{fmt.Sprintf("refuse=%v", r)}
		if r {
			cl = append(cl, "why="+strings.ReplaceAll(why, " ", "-"))
		}
		// non-trivial: within one change of the boundary - approximated by: refused for exactly one reason, or accepted
		return true, cl
	}, runC18)
}

// ---- key substitution: function level (config.Load) ----

type c18Keys struct {
	HostSel   string         `json:"host_selection,omitempty"` // spelling of the mode; never exactly "signed" here (no query key is given, Load would exit)
	Len       map[string]int `json:"key_lengths"` // -1 = absent
	UserToken bool           `json:"enable_user_token"`
	ViaEnv    bool           `json:"via_env"`
	UserSign  int            `json:"user_token_signing_key_length,omitempty"` // 0 = none (user tokens are then encrypted only, C15), 1, 31, 32, 48
	QueryKey  int            `json:"query_token_key_length,omitempty"`        // > 0: host selection is exactly "signed" with a key of that length (1, 31, 32)
}

var c18KeyNames = []string{"PAATokenSigningKey", "PAATokenEncryptionKey", "UserTokenEncryptionKey", "SessionKey", "SessionEncryptionKey"}

func TestC18_LOAD(t *testing.T) {
	dir := t.TempDir()
	runProp(t, "C18_LOAD", func(t *rapid.T) c18Keys {
		c := c18Keys{Len: map[string]int{}, UserToken: rapid.Bool().Draw(t, "usertoken"), ViaEnv: rapid.IntRange(0, 3).Draw(t, "env") == 0}
		for _, k := range c18KeyNames {
			c.Len[k] = rapid.SampledFrom([]int{-1, 0, 1, 31, 32, 32, 32}).Draw(t, k)
		}
		c.HostSel = rapid.SampledFrom([]string{"", "", "roundrobin", "unsigned", "any", "Signed", "SIGNED", " signed", "signed ", "sIgNeD"}).Draw(t, "hostsel")
		c.UserSign = rapid.SampledFrom([]int{0, 0, 1, 31, 32, 48}).Draw(t, "userSign")
		if rapid.IntRange(0, 2).Draw(t, "signedMode") == 0 {
			c.QueryKey = rapid.SampledFrom([]int{1, 31, 32, 32}).Draw(t, "queryKeyLen")
			c.HostSel = "signed"
		} else if c.ViaEnv && strings.TrimSpace(c.HostSel) == "signed" {
			c.HostSel = "Signed" // values from the environment are trimmed: that is exactly "signed", which Load refuses by exiting
		}
		return c
	}, func(c c18Keys) (bool, []string) { return true, nil }, func(c c18Keys) *Violation {
		sec, srv := map[string]any{"EnableUserToken": c.UserToken}, map[string]any{"Hosts": []string{"h:1"}, "Tls": "disable"}
		var envs []string
		envName := map[string]string{"PAATokenSigningKey": "RDPGW_SECURITY__PAA_TOKEN_SIGNING_KEY", "PAATokenEncryptionKey": "RDPGW_SECURITY__PAA_TOKEN_ENCRYPTION_KEY",
			"UserTokenEncryptionKey": "RDPGW_SECURITY__USER_TOKEN_ENCRYPTION_KEY", "SessionKey": "RDPGW_SERVER__SESSION_KEY", "SessionEncryptionKey": "RDPGW_SERVER__SESSION_ENCRYPTION_KEY"}
		want := map[string]string{}
		for _, k := range c18KeyNames {
			n := c.Len[k]
			if n < 0 {
				continue
			}
			v := strings.Repeat("k", n)
			if n == 32 {
				v = ("configured-" + k + strings.Repeat("x", 32))[:32]
			}
			want[k] = v
			if c.ViaEnv && n > 0 {
				envs = append(envs, envName[k])
				os.Setenv(envName[k], v)
			} else if strings.HasPrefix(k, "Session") {
				srv[k] = v
			} else {
				sec[k] = v
			}
		}
		defer func() {
			for _, e := range envs {
				os.Unsetenv(e)
			}
		}()
		userSign, queryKey := strings.Repeat("u", c.UserSign), strings.Repeat("q", c.QueryKey)
		if c.UserSign > 0 {
			if c.ViaEnv {
				envs = append(envs, "RDPGW_SECURITY__USER_TOKEN_SIGNING_KEY")
				os.Setenv("RDPGW_SECURITY__USER_TOKEN_SIGNING_KEY", userSign)
			} else {
				sec["UserTokenSigningKey"] = userSign
			}
		}
		if c.QueryKey > 0 {
			if c.ViaEnv {
				envs = append(envs, "RDPGW_SECURITY__QUERY_TOKEN_SIGNING_KEY")
				os.Setenv("RDPGW_SECURITY__QUERY_TOKEN_SIGNING_KEY", queryKey)
			} else {
				sec["QueryTokenSigningKey"] = queryKey
			}
		}
		if c.HostSel != "" {
			if c.ViaEnv {
				envs = append(envs, "RDPGW_SERVER__HOST_SELECTION")
				os.Setenv("RDPGW_SERVER__HOST_SELECTION", c.HostSel)
			} else {
				srv["HostSelection"] = c.HostSel
			}
		}
		b, _ := json.Marshal(map[string]any{"Server": srv, "Security": sec})
		fn := filepath.Join(dir, "keys.yaml")
		os.WriteFile(fn, b, 0o600)
		// every process loads its configuration once into the package-level Conf: start each "instance" from a zero value
		config.Conf = config.Configuration{}
		a := config.Load(fn)
		config.Conf = config.Configuration{}
		bb := config.Load(fn)
		get := func(cf config.Configuration, k string) string {
			switch k {
			case "PAATokenSigningKey":
				return cf.Security.PAATokenSigningKey
			case "PAATokenEncryptionKey":
				return cf.Security.PAATokenEncryptionKey
			case "UserTokenEncryptionKey":
				return cf.Security.UserTokenEncryptionKey
			case "SessionKey":
				return cf.Server.SessionKey
			}
			return cf.Server.SessionEncryptionKey
		}
		// Load returned instead of exiting: main() goes on to start with this configuration
		if a.Server.HostSelection == "signed" && a.Security.QueryTokenSigningKey == "" {
			return viol("c18/load-returns-signed-without-key", "config.Load accepted host selection %q without a query-token key and returned mode \"signed\": the gateway would start", c.HostSel)
		}
		// the two keys that may be absent: a short one must not be run with either
		if c.UserToken {
			if n := len(a.Security.UserTokenSigningKey); n > 0 && n < 32 {
				return viol("c18/short-key-kept/UserTokenSigningKey", "user tokens enabled with a signing key of length %d: the instance runs with a key of length %d (env %v)", c.UserSign, n, c.ViaEnv)
			}
			if c.UserSign >= 32 && a.Security.UserTokenSigningKey != userSign {
				return viol("c18/configured-key-replaced", "UserTokenSigningKey: a configured key of %d characters was not kept", c.UserSign)
			}
		}
		if c.QueryKey > 0 {
			if a.Server.HostSelection != "signed" {
				return viol("c18/host-selection-changed", "host selection \"signed\" became %q", a.Server.HostSelection)
			}
			if n := len(a.Security.QueryTokenSigningKey); n < 32 {
				return viol("c18/short-key-kept/QueryTokenSigningKey", "signed host selection with a query-token key of length %d: the instance runs with a key of length %d (env %v)", c.QueryKey, n, c.ViaEnv)
			}
			if c.QueryKey == 32 && a.Security.QueryTokenSigningKey != queryKey {
				return viol("c18/configured-key-replaced", "QueryTokenSigningKey: a configured 32-character key was not kept")
			}
		}
		for _, k := range c18KeyNames {
			if k == "UserTokenEncryptionKey" && !c.UserToken {
				continue // only used when user tokens are enabled
			}
			ka, kb := get(a, k), get(bb, k)
			if c.Len[k] == 32 {
				if ka != want[k] {
					return viol("c18/configured-key-replaced", "%s: a configured 32-character key was not kept (lengths %v, env %v)", k, c.Len, c.ViaEnv)
				}
				continue
			}
			if len(ka) < 32 || len(kb) < 32 {
				return viol("c18/short-key-kept/"+k, "%s configured with length %d: the instance runs with a key of length %d (lengths %v, env %v)", k, c.Len[k], len(ka), c.Len, c.ViaEnv)
			}
			if ka == kb {
				return viol("c18/substituted-key-not-random/"+k, "%s: two instances got the same substituted key", k)
			}
		}
		return nil
	})
}

// ---- key substitution: two real instances must not accept each other's tokens and cookies ----

type c18Pair struct {
	Short  string `json:"short_key"` // which key (pair) is short/absent: none | paa-signing | session | user-token
	Length int    `json:"length"`    // -1 absent, 0, 1, 31
	NoAutoSeed bool `json:"math_rand_not_auto_seeded,omitempty"` // both instances run with GODEBUG=randautoseed=0: only a cryptographic generator still gives them different keys
}

func TestC18_PAIR(t *testing.T) {
	runProp(t, "C18_PAIR", func(t *rapid.T) c18Pair {
		return c18Pair{Short: rapid.SampledFrom([]string{"none", "paa-signing", "session", "user-token"}).Draw(t, "short"), Length: rapid.SampledFrom([]int{-1, 0, 1, 31}).Draw(t, "length"), NoAutoSeed: rapid.Bool().Draw(t, "noAutoSeed")}
	}, func(c c18Pair) (bool, []string) { return true, []string{"short=" + c.Short} }, func(c c18Pair) *Violation {
		w := W()
		mk := func() (*gwproc.Inst, error) {
			cfg := webConfig(webOpts{Store: "cookie", HostSelection: "roundrobin", Hosts: []string{w.addr("A")}, VerifyIP: true, EnableUserToken: true, UsernameTemplate: "{{ username }}::{{ token }}"})
			short := func(section, key string) {
				if c.Length < 0 {
					delete(cfg[section], key)
				} else {
					cfg.Set(section, key, strings.Repeat("s", c.Length))
				}
			}
			switch c.Short {
			case "paa-signing":
				short("Security", "PAATokenSigningKey")
			case "session":
				short("Server", "SessionKey")
				short("Server", "SessionEncryptionKey")
			case "user-token":
				short("Security", "UserTokenEncryptionKey")
			}
			so := gwproc.StartOpts{}
			if c.NoAutoSeed {
				so.Env = []string{"GODEBUG=randautoseed=0"}
			}
			return gwproc.Start(cfg, so)
		}
		i1, err := mk()
		if err != nil {
			return viol("infra", "%v", err)
		}
		defer func() { i1.Stop(); i1.Remove() }()
		i2, err := mk()
		if err != nil {
			return viol("infra", "%v", err)
		}
		defer func() { i2.Stop(); i2.Remove() }()
		if e1, _ := i1.Exited(); e1 {
			return viol("c18/good-config-refused", "instance did not start: %s", tail(i1.Stderr(), 400))
		}
		b := newBrowser()
		if r, _, err := b.login(i1, idp.CodeSpec{Sub: w.User, Username: w.User}); err != nil || r.Code != http.StatusFound {
			return viol("c18/setup", "login on instance 1 failed: %v %d", err, r.Code)
		}
		r, err := b.get(i1, "/connect")
		if err != nil || r.Code != 200 {
			return viol("c18/setup", "download on instance 1 failed: %v %d %s", err, r.Code, shorten(r.Body))
		}
		m, _ := parseRDP(r.Body)
		paa := rdpString(m, "gatewayaccesstoken")
		userTok := strings.TrimPrefix(rdpString(m, "username"), w.User+"::")
		// 1. PAA token of instance 1 at instance 2's tunnel
		tun := func(in *gwproc.Inst) bool {
			res := sess.Run("ws", gwc.Target{Addr: in.Addr}, [][]byte{tsgu.Handshake(1, 0, 0, 2), tsgu.TunnelCreate(paa, true), tsgu.Handshake(0, 0, 0, 2)})
			resps, _ := sess.Decode(res.Pkts)
			return len(resps) >= 2 && resps[1].Type == tsgu.PktTunnelResponse && resps[1].Status == 0
		}
		// 2. session cookie of instance 1 at instance 2's /connect
		cookie := func(in *gwproc.Inst) bool {
			b2 := newBrowser()
			if ck := sessionCookieOf(b, i1); ck != nil {
				setSessionCookie(b2, in, ck.Value)
			}
			r, err := b2.get(in, "/connect")
			return err == nil && r.Code == 200
		}
		// 3. user token of instance 1 at instance 2's /tokeninfo
		info := func(in *gwproc.Inst) bool {
			r, err := newBrowser().get(in, "/tokeninfo?access_token="+url.QueryEscape(userTok))
			return err == nil && r.Code == 200
		}
		if !tun(i1) || !cookie(i1) || !info(i1) {
			return viol("c18/own-credentials-refused", "instance 1 does not accept its own token / cookie / user token (short key: %s length %d): %v %v %v", c.Short, c.Length, tun(i1), cookie(i1), info(i1))
		}
		got := map[string]bool{"paa-signing": tun(i2), "session": cookie(i2), "user-token": info(i2)}
		for k, accepted := range got {
			if k == c.Short && accepted {
				return viol("c18/short-key-shared/"+k, "two instances configured with the same %s key of length %d accept each other's credentials: the key was not replaced by a random one", k, c.Length)
			}
			if k != c.Short && !accepted {
				return viol("c18/control-failed/"+k, "instances with the same 32-character %s key must accept each other's credentials (probe not sensitive otherwise)", k)
			}
		}
		return nil
	})
}

var _ = net.Dial
