package props

import (
	"context"
	"encoding/base64"
	"testing"
	"time"

	authconfig "github.com/bolkedebruin/rdpgw/cmd/auth/config"
	"github.com/bolkedebruin/rdpgw/cmd/auth/database"
	"github.com/bolkedebruin/rdpgw/cmd/auth/ntlm"
	"github.com/bolkedebruin/rdpgw/cmd/rdpgw/identity"
	"github.com/bolkedebruin/rdpgw/cmd/rdpgw/protocol"
	"github.com/bolkedebruin/rdpgw/cmd/rdpgw/security"
	"github.com/bolkedebruin/rdpgw/shared/auth"

	"verif/harness/lab/gwc"
	"verif/harness/lab/jwx"
	"verif/harness/lab/ntlmx"
	"verif/harness/lab/sess"
	"verif/harness/lab/tsgu"
)

// Coverage-guided fuzz targets (thorough tier, supplementary): each puts its semantic oracle inside the target.

// FuzzPAACookie: any string -> CheckPAACookie must agree with the reference verifier (C02).
func FuzzPAACookie(f *testing.F) {
	w := W()
	at := w.IdP.NewAccessToken("ok:" + w.User)
	valid := jwx.MintHS256(cookieClaims(w.addr("A"), "127.0.0.1", at, w.User, time.Now().Add(24*time.Hour)), w.Key)
	f.Add(valid)
	f.Add(valid[:len(valid)-1])
	f.Add("a.b.c")
	f.Add("")
	f.Add(jwx.MintHS256(cookieClaims(w.addr("A"), "127.0.0.1", at, w.User, time.Now().Add(-time.Hour)), w.Key))
	f.Add(jwx.MintHS256(map[string]any{"iss": "other", "exp": time.Now().Add(24 * time.Hour).Unix(), "accessToken": at}, w.Key))
	mkGateway(gwOpts{TokenAuth: true, HostSelection: "roundrobin", Hosts: []string{w.addr("A")}, VerifyIP: true})
	f.Fuzz(func(t *testing.T, tok string) {
		id := identity.NewUser()
		id.SetAttribute(identity.AttrClientIp, "127.0.0.1")
		tun := &protocol.Tunnel{User: identity.NewUser()}
		ctx := context.WithValue(context.WithValue(context.Background(), identity.CTXKey, identity.Identity(id)), protocol.CtxTunnel, tun)
		verdict, reason, _, _ := refVerdict(tok, w.Key, time.Now(), w.IdP.TokenState)
		ok, _ := security.CheckPAACookie(ctx, tok)
		if verdict == mustReject && ok {
			t.Fatalf("accepted a cookie that must be refused (%s): %q", reason, tok)
		}
		if verdict == mustAccept && !ok {
			t.Fatalf("refused a valid cookie: %q", tok)
		}
	})
}

// FuzzUserToken: any string -> UserInfo must agree with the reference decryption (C15), encrypt-only mode.
func FuzzUserToken(f *testing.F) {
	security.UserEncryptionKey = []byte(c15EncKey)
	security.UserSigningKey = nil
	minted, _ := security.GenerateUserToken(context.Background(), "fuzz.user@example.org")
	f.Add(minted)
	f.Add(minted[:len(minted)-2])
	f.Add("a.b.c.d.e")
	f.Fuzz(func(t *testing.T, tok string) {
		security.UserEncryptionKey = []byte(c15EncKey)
		security.UserSigningKey = nil
		verdict, reason, _ := c15Verdict(tok, false, time.Now())
		_, err := security.UserInfo(context.Background(), tok)
		if verdict == mustReject && err == nil {
			t.Fatalf("accepted a token that must be refused (%s): %q", reason, tok)
		}
		if verdict == mustAccept && err != nil {
			t.Fatalf("refused a valid token (%v): %q", err, tok)
		}
	})
}

// FuzzNTLMMessage: any bytes after a negotiate -> the verifier neither panics nor authenticates (C10/C14).
func FuzzNTLMMessage(f *testing.F) {
	t3, _, _ := ntlmx.Authenticate(ntlmx.AuthSpec{User: "alice", Key: ntlmx.NTOWFv2("x", "alice", ""), ServerChallenge: make([]byte, 8), TargetInfo: []byte{0, 0, 0, 0}, Timestamp: make([]byte, 8), ClientChallenge: make([]byte, 8)})
	f.Add(t3)
	f.Add(ntlmx.Negotiate())
	f.Add([]byte("NTLMSSP\x00\x03\x00\x00\x00"))
	f.Fuzz(func(t *testing.T, msg []byte) {
		svc := ntlm.NewNTLMAuth(database.NewConfig([]authconfig.UserConfig{{Username: "alice", Password: "pw-a"}}))
		svc.Authenticate(&auth.NtlmRequest{Session: "s", NtlmMessage: base64.StdEncoding.EncodeToString(ntlmx.Negotiate())})
		r, _ := svc.Authenticate(&auth.NtlmRequest{Session: "s", NtlmMessage: base64.StdEncoding.EncodeToString(msg)})
		if r != nil && r.Authenticated {
			t.Fatalf("a fuzzed message was authenticated as %q: %x", r.Username, msg)
		}
	})
}

// FuzzTunnelBytes: raw client bytes on a websocket tunnel of the in-process gateway (token auth on, nothing
// valid can be minted by the fuzzer): no handler panic, no backend connection, the gateway keeps serving.
func FuzzTunnelBytes(f *testing.F) {
	f.Add(append(tsgu.Handshake(1, 0, 0, 2), tsgu.TunnelCreate("x.y.z", true)...), uint8(14))
	f.Add(append(tsgu.Handshake(1, 0, 0, 2), tsgu.Header(tsgu.PktData, 3)...), uint8(3))
	f.Add(tsgu.ChannelCreate("127.0.0.1", 3389), uint8(200))
	f.Fuzz(func(t *testing.T, stream []byte, cut uint8) {
		w := W()
		o := gwOpts{TokenAuth: true, HostSelection: "roundrobin", Hosts: []string{w.addr("A")}, VerifyIP: true}
		v := withGateway(mkGateway(o), func() *Violation {
			snap := w.snap()
			ws, err := gwc.DialWS(inpTarget(), sess.NewConnID())
			if err != nil {
				return viol("open", "%v", err)
			}
			n := int(cut)
			for len(stream) > 0 {
				if n <= 0 || n > len(stream) {
					n = len(stream)
				}
				if ws.Send(stream[:n]) != nil {
					break
				}
				ws.SyncPeer()
				stream = stream[n:]
			}
			ws.Close()
			acc, _ := w.observe(snap, 0)
			for l, k := range acc {
				if k != 0 {
					return viol("unauthorized-connection", "listener %s got %d connection(s) from a tunnel that cannot hold a valid cookie", l, k)
				}
			}
			return nil
		})
		if v != nil {
			t.Fatalf("[%s] %s", v.Sig, v.Msg)
		}
	})
}
