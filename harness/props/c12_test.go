package props

import (
	"github.com/bolkedebruin/rdpgw/cmd/rdpgw/identity"
	"github.com/bolkedebruin/rdpgw/cmd/rdpgw/web"
	"net/http/httptest"
	"context"
	"path/filepath"
	"os"
	"sync"
	"fmt"
	"net"
	"net/http"
	"net/url"
	"strings"
	"testing"
	"time"

	"pgregory.net/rapid"

	"verif/harness/lab/gwc"
	"verif/harness/lab/idp"
	"verif/harness/lab/jwx"
	"verif/harness/lab/sess"
	"verif/harness/lab/tsgu"
)

// C12 — connection files go only to logged-in sessions and bind user, host and address.

type c12Req struct {
	Session   string  `json:"session"`  // none | new | failed-login | authenticated
	User      string  `json:"user"`     // preferred_username of the login
	SubDiffer bool    `json:"sub_differs,omitempty"`
	Host      string  `json:"host_param"` // absent | listed:<i> | unlisted | qt-valid:<i> | qt-unlisted | qt-forged | qt-expired | qt-wrong-issuer | qt-wrong-key | junk
	Login     c04Side `json:"login_from"`
	From      c04Side `json:"download_from"`
	Replay    string  `json:"replay_transport"` // "" | ws | legacy
}

type c12Case struct {
	Opts webOpts  `json:"gateway"`
	Reqs []c12Req `json:"requests"`
}

func genC12(t *rapid.T) c12Case {
	o := webOpts{Store: rapid.SampledFrom([]string{"cookie", "file"}).Draw(t, "store"), VerifyIP: true}
	o.HostSelection = rapid.SampledFrom([]string{"roundrobin", "roundrobin", "signed", "unsigned", "any"}).Draw(t, "mode")
	switch rapid.IntRange(0, 3).Draw(t, "hostsKind") {
	case 3:
		o.Hosts = []string{"rds01.corp.example:3389", "localhost:3390"} // names: an entry is the exact string, not a case-folded one
	case 0:
		o.Hosts = []string{"$A"}
	case 1:
		o.Hosts = []string{"$A", "$B"}
	default:
		o.Hosts = []string{"127.0.0." + placeholder + ":$G"} // every user has a host of his own (grid listeners)
	}
	o.SplitUserDomain = rapid.Bool().Draw(t, "split")
	o.NoUsername = rapid.IntRange(0, 3).Draw(t, "nouser") == 0
	o.UsernameTemplate = rapid.SampledFrom([]string{"", "", "pre-{{ username }}-post", "{{ username }}@corp"}).Draw(t, "template")
	if rapid.IntRange(0, 3).Draw(t, "usertoken") == 0 {
		o.EnableUserToken = true
		o.UserSigningKey = rapid.Bool().Draw(t, "usersign")
		o.UsernameTemplate = "{{ username }}::{{ token }}"
	}
	c := c12Case{Opts: o}
	for i, n := 0, rapid.IntRange(1, 6).Draw(t, "nreq"); i < n; i++ {
		r := c12Req{Session: rapid.SampledFrom([]string{"none", "new", "failed-login", "authenticated", "authenticated", "authenticated"}).Draw(t, "session")}
		r.User = rapid.SampledFrom([]string{"4", "7", "alice", "bob@example.com", "carol@corp@x", "Zoë"}).Draw(t, "user")
		if strings.Contains(o.Hosts[0], placeholder) {
			r.User = rapid.SampledFrom([]string{"4", "7", "2@example.com", "9"}).Draw(t, "numUser")
		}
		r.SubDiffer = rapid.IntRange(0, 4).Draw(t, "subDiffers") == 0
		r.Host = rapid.SampledFrom([]string{"absent", "listed:0", "listed:1", "listed-othercase:0", "listed-othercase:1", "unlisted", "qt-valid:0", "qt-valid:1", "qt-unlisted", "qt-forged", "qt-expired", "qt-wrong-issuer", "qt-no-issuer", "qt-wrong-key", "junk", "line-break-then-gateway", "line-break-then-address"}).Draw(t, "hostParam")
		r.Login.IP = rapid.SampledFrom(c04IPs).Draw(t, "loginIP")
		r.From.IP = r.Login.IP
		if rapid.IntRange(0, 2).Draw(t, "moved") == 0 {
			r.From.IP = rapid.SampledFrom(c04IPs).Draw(t, "fromIP")
		}
		if rapid.IntRange(0, 3).Draw(t, "xff") == 0 {
			r.From.XFF = genChain(t, rapid.SampledFrom([]string{"10.1.2.3", "2001:db8::1", "127.0.0.9"}).Draw(t, "xffFirst"))
		}
		r.Replay = rapid.SampledFrom([]string{"", "ws", "legacy"}).Draw(t, "replay")
		c.Reqs = append(c.Reqs, r)
	}
	return c
}

func resolveWebHosts(o webOpts) webOpts {
	w := W()
	var hs []string
	for _, h := range o.Hosts {
		h = strings.ReplaceAll(h, "$A", w.addr("A"))
		h = strings.ReplaceAll(h, "$B", w.addr("B"))
		h = strings.ReplaceAll(h, "$G", fmt.Sprint(theGrid().P))
		hs = append(hs, h)
	}
	o.Hosts = hs
	return o
}

func queryToken(sub, iss string, exp time.Time, key string) string {
	claims := map[string]any{"sub": sub, "exp": exp.Unix()}
	if iss != "" {
		claims["iss"] = iss
	}
	return jwx.MintHS256(claims, []byte(key))
}

func runC12(c c12Case) *Violation {
	w := W()
	o := resolveWebHosts(c.Opts)
	in, err := webInstance(o)
	if err != nil {
		return viol("bin/start", "%v", err)
	}
	g := theGrid()
	for i, r := range c.Reqs {
		b := newBrowser()
		b.LocalIP, b.XFF = r.Login.IP, r.Login.XFF
		sub := r.User
		if r.SubDiffer {
			sub = "subject-" + r.User
		}
		accessToken := ""
		switch r.Session {
		case "new":
			b.get(in, "/connect")
		case "failed-login":
			// the way the login fails is derived from the case (user and position), so that every failing point is visited
			faults := []string{"bad_sig", "no_username", "nonstring_username", "wrong_aud", "expired", "refuse", "no_id_token", "wrong_iss"}
			b.login(in, idp.CodeSpec{Sub: sub, Username: r.User, Fault: faults[(i+len(r.User)+len(c.Reqs))%len(faults)]})
		case "authenticated":
			lr, code, err := b.login(in, idp.CodeSpec{Sub: sub, Username: r.User})
			if err != nil || lr.Code != http.StatusFound {
				return viol("c12/setup", "request %d: login failed: %v %d %s", i, err, lr.Code, shorten(lr.Body))
			}
			_, accessToken, _ = w.IdP.IssuedFor(code)
		}
		// the download request
		hostParam, hasParam := "", true
		want := "" // host the policy must choose; "" = depends / refused
		listed := func(k int) string { return o.Hosts[k%len(o.Hosts)] }
		switch {
		case r.Host == "absent":
			hasParam = false
		case strings.HasPrefix(r.Host, "listed:"):
			hostParam = listed(int(r.Host[7] - '0'))
		case strings.HasPrefix(r.Host, "listed-othercase:"):
			e := listed(int(r.Host[17] - '0'))
			hostParam = strings.ToUpper(e[:len(e)/2]) + e[len(e)/2:]
			if hostParam == e { // no letters in the first half (an address): not a different spelling, treat as listed
				r.Host = "listed:" + r.Host[17:]
			}
		case r.Host == "unlisted":
			hostParam = w.addr("D")
		case strings.HasPrefix(r.Host, "qt-valid:"):
			hostParam = queryToken(listed(int(r.Host[9]-'0')), "portal", time.Now().Add(3*time.Minute), testQueryKey)
		case r.Host == "qt-unlisted":
			hostParam = queryToken(w.addr("D"), "portal", time.Now().Add(3*time.Minute), testQueryKey)
		case r.Host == "qt-forged":
			t := queryToken(listed(0), "portal", time.Now().Add(3*time.Minute), testQueryKey)
			hostParam = t[:len(t)-4] + "AAAA"
		case r.Host == "qt-expired":
			hostParam = queryToken(listed(0), "portal", time.Now().Add(-5*time.Minute), testQueryKey)
		case r.Host == "qt-wrong-issuer":
			hostParam = queryToken(listed(0), "someone-else", time.Now().Add(3*time.Minute), testQueryKey)
		case r.Host == "qt-no-issuer":
			hostParam = queryToken(listed(0), "", time.Now().Add(3*time.Minute), testQueryKey)
		case r.Host == "qt-wrong-key":
			hostParam = queryToken(listed(0), "portal", time.Now().Add(3*time.Minute), "another-query-signing-key-32-ch!")
		case r.Host == "line-break-then-gateway":
			// a link somebody else prepared: the value goes on after a line break with a setting of its own
			hostParam = listed(0) + "\r\ngatewayhostname:s:gw.elsewhere.example.net"
		case r.Host == "line-break-then-address":
			hostParam = listed(0) + "\nfull address:s:" + w.addr("D")
		default:
			hostParam = "junk host"
		}
		brokenValue := strings.ContainsAny(hostParam, "\r\n")
		// reference selection policy
		refuse := false
		anyOf := []string(nil)
		switch o.HostSelection {
		case "roundrobin", "":
			anyOf = o.Hosts
		case "signed":
			if strings.HasPrefix(r.Host, "qt-valid:") {
				want = listed(int(r.Host[9] - '0'))
			} else {
				refuse = true
			}
		case "unsigned":
			if strings.HasPrefix(r.Host, "listed:") {
				want = hostParam
			} else {
				refuse = true
			}
		case "any":
			if hasParam {
				want = hostParam
			} else {
				refuse = true
			}
		}
		path := "/connect"
		if hasParam {
			path += "?host=" + url.QueryEscape(hostParam)
		}
		b.LocalIP, b.XFF = r.From.IP, r.From.XFF
		resp, err := b.get(in, path)
		if err != nil {
			return viol("c12/http", "request %d: %v", i, err)
		}
		desc := fmt.Sprintf("request %d: mode %q hosts %v, session %s (user %q, sub %q), host param %s, login from %+v, download from %+v -> %d", i, o.HostSelection, o.Hosts, r.Session, r.User, sub, r.Host, r.Login, r.From, resp.Code)
		hasToken := strings.Contains(resp.Body, "gatewayaccesstoken")
		if r.Session != "authenticated" {
			if hasToken || resp.Code == 200 {
				return viol("c12/file-without-login", "a session that did not complete the login received a connection file: %s", desc)
			}
			loc := resp.Header.Get("Location")
			if resp.Code != http.StatusFound || !strings.HasPrefix(loc, w.IdP.URL+"/auth") {
				return viol("c12/not-redirected", "a session that did not complete the login must be redirected to the identity provider (got Location %q): %s", loc, desc)
			}
			continue
		}
		if brokenValue && !refuse && resp.Code == http.StatusBadRequest && !hasToken {
			continue // a value that cannot be written on one line may be refused; if a file is made, it has to be right
		}
		if refuse {
			if resp.Code != http.StatusBadRequest || hasToken {
				return viol("c12/policy-not-enforced/"+o.HostSelection+"/"+strings.SplitN(r.Host, ":", 2)[0], "the selection policy yields no host, the request must be answered 400 without a file: %s", desc)
			}
			continue
		}
		if resp.Code != 200 {
			return viol("c12/refused-valid-request", "a logged-in session must receive its file: %s %s", desc, shorten(resp.Body))
		}
		if v := checkLines(resp.Body); v != nil {
			return v
		}
		m, ok := parseRDP(resp.Body)
		if !ok {
			return viol("c12/file-unparseable", "%s", desc)
		}
		if gh := rdpString(m, "gatewayhostname"); gh != gatewayHostName {
			return viol("c12/gateway-host", "the file names gateway %q, configured is %q: %s", gh, gatewayHostName, desc)
		}
		full := rdpString(m, "full address")
		subst := func(h string) string { return strings.Replace(h, placeholder, r.User, 1) }
		okHost := false
		if want != "" {
			okHost = full == subst(want)
		}
		for _, h := range anyOf {
			if full == subst(h) {
				okHost = true
			}
		}
		if !okHost {
			return viol("c12/target-host", "the file's target %q is not what the selection policy yields (want %q / one of %v after substitution): %s", full, want, anyOf, desc)
		}
		// the access token's claims
		tok := rdpString(m, "gatewayaccesstoken")
		info, err := jwx.InspectJWS(tok, []byte(testSigningKey))
		if err != nil || !info.MACOK {
			return viol("c12/token-not-verifiable", "the access token does not verify under the configured signing key (%v): %s", err, desc)
		}
		userPart := r.User
		if o.SplitUserDomain {
			userPart = strings.SplitN(r.User, "@", 2)[0]
		}
		cl := info.Claims
		exp, _ := cl["exp"].(float64)
		wantClaims := map[string]any{"remoteServer": full, "sub": userPart, "clientIp": refAddr(r.From), "accessToken": accessToken, "iss": "rdpgw"}
		for k, v := range wantClaims {
			if cl[k] != v {
				return viol("c12/token-claim/"+k, "token claim %s is %q, must be %q: %s", k, cl[k], v, desc)
			}
		}
		if d := exp - float64(time.Now().Unix()); d > 301 || d < 200 {
			return viol("c12/token-claim/exp", "token expires in %.0f s: %s", d, desc)
		}
		// user name / domain lines
		if !o.NoUsername {
			wantUser := userPart
			if o.UsernameTemplate != "" {
				wantUser = strings.Replace(o.UsernameTemplate, "{{ username }}", userPart, 1)
			}
			gotUser := rdpString(m, "username")
			if o.EnableUserToken {
				pre := strings.SplitN(wantUser, "{{ token }}", 2)[0]
				if !strings.HasPrefix(gotUser, pre) || strings.Contains(gotUser, "{{ token }}") {
					return viol("c12/username", "user name line %q does not follow the template %q: %s", shorten(gotUser), o.UsernameTemplate, desc)
				}
				ut := strings.TrimPrefix(gotUser, pre)
				v, reason, usub := c15VerdictKeys(ut, o.UserSigningKey)
				if v == mustReject || usub != userPart {
					return viol("c12/user-token", "the user token in the file is not valid for %q under the configured keys (%s, subject %q): %s", userPart, reason, usub, desc)
				}
			} else if gotUser != wantUser {
				return viol("c12/username", "user name line %q, want %q: %s", gotUser, wantUser, desc)
			}
		} else if _, has := m["username"]; has {
			return viol("c12/username", "user name suppressed by configuration but present: %s", desc)
		}
		// replay: host + token from the same address pass the gateway's own tunnel checks
		if r.Replay != "" && o.HostSelection != "signed" {
			h, p := splitHP(full)
			if ip := net.ParseIP(h); ip == nil || !ip.IsLoopback() {
				continue // only hosts that are live listeners of the harness can be replayed
			}
			tgt := gwc.Target{Addr: gwAddrFor(in.Addr, r.From.IP), LocalIP: r.From.IP, Headers: r.From.headers()}
			units := [][]byte{tsgu.Handshake(1, 0, 0, 2), tsgu.TunnelCreate(tok, true), tsgu.TunnelAuth("pc"), tsgu.ChannelCreate(h, p), tsgu.Handshake(0, 0, 0, 2)}
			snap := w.snap()
			marks := g.marks()
			res := sess.Run(r.Replay, tgt, units)
			resps, derr := sess.Decode(res.Pkts)
			n := channelSuccesses(resps)
			if n > 0 { // the connection may show up at a world listener or at the grid
				waitFor(func() bool {
					k := 0
					for l, ls := range w.L {
						k += ls.Accepts() - snap[l]
					}
					for li, l := range g.Ls {
						k += l.Accepts() - marks[li]
					}
					return k >= n
				})
			}
			acc, _ := w.observe(snap, 0)
			gacc := g.newAccepts(marks, 0)
			total := len(gacc)
			for _, k := range acc {
				total += k
			}
			if derr != nil || len(resps) < 4 || resps[1].Status != 0 || resps[3].Type != tsgu.PktChannelResponse || resps[3].Status != 0 || total != 1 {
				sig := "c12/own-file-refused"
				if r.SubDiffer && strings.Contains(c.Opts.Hosts[0], placeholder) {
					sig = "c12/own-file-refused/placeholder-sub-differs"
				} else if o.SplitUserDomain && strings.Contains(r.User, "@") && strings.Contains(c.Opts.Hosts[0], placeholder) {
					sig = "c12/own-file-refused/placeholder-split-domain"
				}
				return viol(sig, "host and token of the gateway's own file, presented unmodified from the same address over %s, are not accepted by its tunnel checks: responses %v, backend connections %d (%v): %s", r.Replay, resps, total, derr, desc)
			}
		}
	}
	return binHealth(in)
}

// c15VerdictKeys is c15Verdict with the binary's key configuration.
func c15VerdictKeys(tok string, signed bool) (string, string, string) {
	return c15Verdict(tok, signed, time.Now())
}

func TestC12_BIN(t *testing.T) {
	runProp(t, "C12_BIN", genC12, func(c c12Case) (bool, []string) {
		nt := false
		cl := []string{"mode=" + c.Opts.HostSelection}
		for _, r := range c.Reqs {
			cl = append(cl, "session="+r.Session, "host="+strings.SplitN(r.Host, ":", 2)[0])
			if r.Session == "authenticated" && (r.Host != "absent" || r.From.XFF != nil || strings.Contains(r.User, "@") || strings.Contains(c.Opts.Hosts[0], placeholder)) {
				nt = true
			}
		}
		return nt, cl
	}, runC12)
}

// ---- concurrent downloads (in-process handler): every file belongs to the session that asked for it ----

type c12Conc struct {
	Template bool `json:"administrator_template"`
	Sessions int  `json:"concurrent_sessions"`
	Each     int  `json:"downloads_each"`
	Split    bool `json:"split_user_domain"`
}

func TestC12_CONC(t *testing.T) {
	dir := t.TempDir()
	runProp(t, "C12_CONC", func(t *rapid.T) c12Conc {
		return c12Conc{Template: rapid.IntRange(0, 3).Draw(t, "template") > 0, Sessions: rapid.IntRange(2, 12).Draw(t, "sessions"), Each: rapid.IntRange(50, 600).Draw(t, "each"), Split: rapid.Bool().Draw(t, "split")}
	}, func(c c12Conc) (bool, []string) { return true, []string{fmt.Sprintf("template=%v", c.Template)} }, func(c c12Conc) *Violation {
		var hosts []string
		for s := 0; s < c.Sessions; s++ {
			hosts = append(hosts, fmt.Sprintf("desk%02d.example.com:3389", s))
		}
		gwURL, _ := url.Parse("https://gw.example.test:8443/")
		cfg := &web.Config{
			PAATokenGenerator: func(_ context.Context, user string, host string) (string, error) { return "token|" + user + "|" + host, nil },
			Hosts:             hosts, HostSelection: "unsigned", GatewayAddress: gwURL,
			RdpOpts:           web.RdpOpts{SplitUserDomain: c.Split},
		}
		if c.Template {
			fn := filepath.Join(dir, "template.rdp")
			os.WriteFile(fn, []byte("audiomode:i:2\r\nsmart sizing:i:1\r\ndomain:s:TEMPLATEDOM\r\n"), 0o600)
			cfg.TemplateFile = fn
		}
		h := cfg.NewHandler()
		errs := make(chan string, c.Sessions)
		var wg sync.WaitGroup
		for s := 0; s < c.Sessions; s++ {
			wg.Add(1)
			go func(s int) {
				defer wg.Done()
				user := fmt.Sprintf("user%02d@corp%02d.example", s, s)
				wantUser, wantDomain := user, ""
				if c.Split {
					wantUser, wantDomain = fmt.Sprintf("user%02d", s), fmt.Sprintf("corp%02d.example", s)
				}
				for i := 0; i < c.Each; i++ {
					id := identity.NewUser()
					id.SetUserName(user)
					id.SetAuthenticated(true)
					req := httptest.NewRequest("GET", "/connect?host="+url.QueryEscape(hosts[s]), nil)
					req = identity.AddToRequestCtx(id, req)
					rr := httptest.NewRecorder()
					h.HandleDownload(rr, req)
					m, ok := parseRDP(rr.Body.String())
					if rr.Code != 200 || !ok {
						errs <- fmt.Sprintf("session %d download %d: status %d", s, i, rr.Code)
						return
					}
					if got := rdpString(m, "full address"); got != hosts[s] {
						errs <- fmt.Sprintf("session %d (user %s) asked for %s, its file names %s", s, user, hosts[s], got)
						return
					}
					if got := rdpString(m, "username"); got != wantUser {
						errs <- fmt.Sprintf("session %d: user name in its file is %q, want %q", s, got, wantUser)
						return
					}
					if got := rdpString(m, "domain"); c.Split && got != wantDomain {
						errs <- fmt.Sprintf("session %d: domain in its file is %q, want %q", s, got, wantDomain)
						return
					}
					if got := rdpString(m, "gatewayaccesstoken"); got != "token|"+wantUser+"|"+hosts[s] {
						errs <- fmt.Sprintf("session %d (user %s, host %s): the access token in its file was issued for %q", s, wantUser, hosts[s], got)
						return
					}
				}
			}(s)
		}
		wg.Wait()
		select {
		case e := <-errs:
			return viol("c12/file-of-another-session", "%s (%d sessions downloading concurrently, template %v)", e, c.Sessions, c.Template)
		default:
		}
		return nil
	})
}
