package props

import (
	"fmt"
	"net"
	"strconv"
	"strings"
	"sync"
	"testing"
	"time"
	"unicode/utf16"

	"pgregory.net/rapid"

	"verif/harness/lab/backend"
	"verif/harness/lab/gwc"
	"verif/harness/lab/jwx"
	"verif/harness/lab/sess"
	"verif/harness/lab/tsgu"
)

// C03 — the host dialed is exactly the host that was requested and authorized.

// three dual-stack wildcard listeners on consecutive ports P-1, P, P+1: every loopback endpoint
// (127.0.0.0/8 and ::1) x these ports is live, and the accepted connection's local address tells which
// endpoint the gateway dialed.
type hostGrid struct {
	P  int
	Ls []*backend.Listener
}

var (
	gridOnce sync.Once
	grid     *hostGrid
)

func theGrid() *hostGrid {
	gridOnce.Do(func() {
		for try := 0; try < 200; try++ {
			// grids of different processes sit ten ports apart (P = 5 mod 10), so that a near-miss port of one process's
			// case (P-2 .. P+2) is never a listener of another process's grid
			p := 20005 + ((int(time.Now().UnixNano()/1000)+try*13)%1000)*10
			var ls []*backend.Listener
			ok := true
			for d := -1; d <= 1; d++ {
				l, err := backend.Listen("[::]:" + strconv.Itoa(p+d))
				if err != nil {
					ok = false
					break
				}
				ls = append(ls, l)
			}
			if ok {
				grid = &hostGrid{P: p, Ls: ls}
				return
			}
			for _, l := range ls {
				l.Close()
			}
		}
		panic("no port triple free")
	})
	return grid
}

// newAccepts returns the local addresses (as dialed by the gateway) of connections accepted since the marks.
func (g *hostGrid) marks() []int {
	var m []int
	for _, l := range g.Ls {
		m = append(m, l.Accepts())
	}
	return m
}
func (g *hostGrid) newAccepts(m []int, min int) []string {
	if min > 0 {
		deadline := time.Now().Add(3 * time.Second)
		for {
			n := 0
			for i, l := range g.Ls {
				n += l.Accepts() - m[i]
			}
			if n >= min || time.Now().After(deadline) {
				break
			}
			time.Sleep(100 * time.Microsecond)
		}
	}
	var out []string
	for i, l := range g.Ls {
		for _, c := range l.Conns()[m[i]:] {
			a := c.C.LocalAddr().(*net.TCPAddr)
			ip := a.IP
			if v4 := ip.To4(); v4 != nil {
				ip = v4
			}
			out = append(out, net.JoinHostPort(ip.String(), strconv.Itoa(a.Port)))
			c.Close()
		}
	}
	return out
}

type c03Case struct {
	Mode      string   `json:"host_selection"`
	Entries   []string `json:"hosts"` // $P = grid port
	User      string   `json:"user"`
	TokenAuth bool     `json:"token_auth"`
	NoVerify  bool     `json:"verify_client_ip_off,omitempty"` // token auth with the client-address check switched off: the host policy applies all the same
	TokenHost string   `json:"token_host"` // template; "=" means: the requested host:port itself
	Name      []uint16 `json:"name_utf16"` // raw UTF-16 units of the server name field (terminator included if any)
	Odd       bool     `json:"odd_length"` // one extra byte appended
	CbOver    int      `json:"name_size_over"`
	PortOff   int      `json:"port_offset"` // requested port = P + offset; 99999 = port 0
	Kind      string   `json:"transport"`
	What      string   `json:"near_miss"`
	NameWithPort string `json:"name_is_host_colon_port,omitempty"` // the name field carries this host, a colon and the grid port P
}

const placeholder = "{{ preferred_username }}"

var c03Entries = []string{"127.0.0.1:$P", "localhost:$P", "[::1]:$P", "127.0.0." + placeholder + ":$P", "127.0.0.3", "127.0.0.5:$P", "127.0.0.1:$Q"}

func substEntry(e, user string, P int) string {
	e = strings.ReplaceAll(e, "$P", strconv.Itoa(P))
	e = strings.ReplaceAll(e, "$Q", strconv.Itoa(P+1))
	return strings.Replace(e, placeholder, user, 1)
}

func u16(s string, nul bool) []uint16 {
	u := utf16.Encode([]rune(s))
	if nul {
		u = append(u, 0)
	}
	return u
}

func genC03(t *rapid.T) c03Case {
	c := c03Case{}
	c.Mode = rapid.SampledFrom([]string{"any", "signed", "roundrobin", "roundrobin", "unsigned", "unsigned", "", "junk"}).Draw(t, "mode")
	n := rapid.IntRange(1, 4).Draw(t, "nentries")
	for i := 0; i < n; i++ {
		c.Entries = append(c.Entries, rapid.SampledFrom(c03Entries).Draw(t, "entry"))
	}
	c.TokenAuth = rapid.Bool().Draw(t, "tokenAuth")
	c.NoVerify = c.TokenAuth && rapid.IntRange(0, 2).Draw(t, "noVerifyIP") == 0
	return genC03Req(t, c)
}

// genC03Req draws the request part for a given configuration (Mode, Entries, TokenAuth).
func genC03Req(t *rapid.T, cfg c03Case) c03Case {
	c := c03Case{Mode: cfg.Mode, Entries: cfg.Entries, TokenAuth: cfg.TokenAuth, NoVerify: cfg.NoVerify, Kind: genKind(t)}
	c.User = rapid.SampledFrom([]string{"", "1", "2", "4", "7", "9", "1", "al ice", "bob@example.com", "{{x}}", "1:7", "1@corp", "7@partner.example", "2@", "1$1", "7${1}", "2$svc", "4$", "$9"}).Draw(t, "user")
	// base: one of the entries as the user sees it
	base := rapid.SampledFrom(c.Entries).Draw(t, "base")
	host, port := "127.0.0.1", "$P"
	if i := strings.LastIndex(base, ":$"); i >= 0 {
		host, port = base[:i], base[i+1:]
	} else {
		host = base
	}
	host = strings.Replace(host, placeholder, c.User, 1)
	host = strings.Trim(host, "[]")
	if port == "$Q" {
		c.PortOff = 1
	}
	c.What = rapid.SampledFrom([]string{"exact", "exact", "exact", "port+1", "port-1", "port0", "embedded-nul", "double-nul", "no-nul", "prefix", "suffix", "superstring",
		"other-user", "other-user", "bracketed", "ipv6-variant", "surrogates", "high-byte-lookalike", "high-byte-lookalike", "name-with-port", "name-with-port", "odd-length", "over-long-size", "case", "empty"}).Draw(t, "what")
	name := u16(host, true)
	switch c.What {
	case "port+1":
		c.PortOff++
	case "port-1":
		c.PortOff--
	case "port0":
		c.PortOff = 99999
	case "embedded-nul":
		name = append(u16(host, false), append([]uint16{0}, u16(".example", true)...)...)
	case "double-nul":
		name = append(u16(host, true), 0)
	case "no-nul":
		name = u16(host, false)
	case "prefix":
		if len(host) > 1 {
			name = u16(host[:len(host)-1], true)
		}
	case "suffix":
		if len(host) > 1 {
			name = u16(host[1:], true)
		}
	case "superstring":
		name = u16(host+rapid.SampledFrom([]string{"1", ".", ".evil", " "}).Draw(t, "extra"), true)
	case "name-with-port":
		// the server name itself spells host:port (an allowed entry as a whole); the port field says something else. The
		// request names the server "host:port" at the port of the field - that is nobody's entry
		pp := "$P"
		if port == "$Q" {
			pp = "$Q"
		}
		_ = pp
		name = nil // filled in when the grid port is known (see c03Name)
		c.NameWithPort = host
		c.PortOff += rapid.SampledFrom([]int{0, 1, -1, 99999 - c.PortOff}).Draw(t, "fieldPort")
	case "high-byte-lookalike":
		// the allowed name with some code units replaced by units that have the same low byte and a non-zero high byte:
		// a different name, which no policy lists
		name = u16(host, true)
		all := rapid.Bool().Draw(t, "allUnits")
		hi := rapid.SampledFrom([]uint16{0x0100, 0x0400, 0x2000, 0xd800, 0xff00}).Draw(t, "highByte")
		k := rapid.IntRange(0, len(name)-1).Draw(t, "unitAt")
		for i := range name {
			if (all || i == k) && (name[i] != 0 || i == len(name)-1 && rapid.Bool().Draw(t, "alsoTerminator")) {
				name[i] |= hi
			}
		}
	case "other-user":
		other := rapid.SampledFrom([]string{"1", "2", "4", "7", "9"}).Draw(t, "otherUser")
		if i := strings.IndexByte(c.User, '$'); i > 0 {
			other = c.User[:i] // the user whose name is this one's up to the '$' (a careless substitution may expand "$1", "${1}", "$svc" to nothing)
		}
		name = u16("127.0.0."+other, true)
	case "bracketed":
		name = u16("["+host+"]", true)
	case "ipv6-variant":
		name = u16(rapid.SampledFrom([]string{"0:0:0:0:0:0:0:1", "::ffff:127.0.0.1", "::1"}).Draw(t, "v6"), true)
	case "surrogates":
		switch rapid.IntRange(0, 2).Draw(t, "surKind") {
		case 0:
			name = append(u16(host, false), 0xD83D, 0xDE00, 0) // a proper pair appended
		case 1:
			name = append(u16(host, false), 0xD83D, 0) // lone high surrogate
		default:
			name = append([]uint16{0xDE00}, u16(host, true)...) // lone low surrogate first
		}
	case "odd-length":
		c.Odd = true
	case "over-long-size":
		c.CbOver = rapid.IntRange(1, 40).Draw(t, "over")
	case "case":
		name = u16(strings.ToUpper(host), true)
	case "empty":
		name = rapid.SampledFrom([][]uint16{{}, {0}}).Draw(t, "emptyKind")
	}
	c.Name = name
	if c.TokenAuth {
		c.TokenHost = rapid.SampledFrom([]string{"=", "=", "=", base, rapid.SampledFrom(c.Entries).Draw(t, "tokEntry"), "junk:1", "127.0.0.1:$P"}).Draw(t, "tokenHost")
	}
	return c
}

// reference decoding of the requested name: (name, decodable)
func refName(c c03Case) (string, bool) {
	if c.Odd {
		return "", false
	}
	u := c.Name
	for i := 0; i < len(u); i++ {
		if utf16.IsSurrogate(rune(u[i])) {
			if u[i] < 0xDC00 && i+1 < len(u) && u[i+1] >= 0xDC00 && u[i+1] <= 0xDFFF {
				i++
				continue
			}
			return "", false
		}
	}
	s := string(utf16.Decode(u))
	s = strings.TrimSuffix(s, "\x00") // exactly one terminator
	return s, true
}

func (c c03Case) port(P int) int {
	if c.PortOff == 99999 {
		return 0
	}
	return P + c.PortOff
}

// endpoints the textual host:port denotes on this machine
func endpointsOf(hp string) map[string]bool {
	out := map[string]bool{}
	h, p, err := net.SplitHostPort(hp)
	if err != nil {
		return out
	}
	if strings.EqualFold(h, "localhost") {
		out[net.JoinHostPort("127.0.0.1", p)] = true
		out[net.JoinHostPort("::1", p)] = true
		return out
	}
	if ip := net.ParseIP(h); ip != nil {
		if v4 := ip.To4(); v4 != nil {
			ip = v4
		}
		if ip.IsUnspecified() { // the operating system connects 0.0.0.0 / :: to the local host
			if len(ip) == 4 {
				ip = net.IPv4(127, 0, 0, 1).To4()
			} else {
				ip = net.IPv6loopback
			}
		}
		out[net.JoinHostPort(ip.String(), p)] = true
	}
	return out
}

func runC03On(c c03Case, tgt func(user string) gwc.Target, o gwOpts, P int) *Violation {
	g := theGrid()
	w := W()
	if c.NameWithPort != "" {
		c.Name = u16(c.NameWithPort+":"+strconv.Itoa(P), true)
	}
	name, decodable := refName(c)
	port := c.port(P)
	hp := net.JoinHostPort(name, strconv.Itoa(port))
	// reference policy, from the statement
	allowed := false
	switch c.Mode {
	case "any":
		allowed = true
	case "roundrobin", "unsigned":
		if c.User != "" {
			for _, e := range c.Entries {
				if substEntry(e, c.User, P) == hp {
					allowed = true
				}
			}
		}
	}
	tokenHost := ""
	if c.TokenAuth {
		tokenHost = c.TokenHost
		if tokenHost == "=" {
			tokenHost = hp
		} else {
			tokenHost = substEntry(tokenHost, c.User, P)
		}
		if hp != tokenHost {
			allowed = false
		}
	}
	if !decodable {
		allowed = false
	}
	// packets
	nameBytes := tsgu.UTF16Raw(c.Name)
	if c.Odd {
		nameBytes = append(nameBytes, 0x41)
	}
	cb := -1
	if c.CbOver > 0 {
		cb = len(nameBytes) + c.CbOver
	}
	caps := o.serverCaps()
	units := [][]byte{tsgu.Handshake(1, 0, 0, caps)}
	if c.TokenAuth {
		at := w.IdP.NewAccessToken("ok:" + c.User)
		ck := jwx.MintHS256(cookieClaims(tokenHost, "127.0.0.1", at, c.User, time.Now().Add(4*time.Minute)), w.Key)
		units = append(units, tsgu.TunnelCreate(ck, true))
	} else {
		units = append(units, tsgu.TunnelCreate("", false))
	}
	units = append(units, tsgu.TunnelAuth("pc"), tsgu.ChannelCreateRaw(1, 0, uint16(port), 3, nameBytes, cb), tsgu.Handshake(0, 0, 0, caps))
	marks := g.marks()
	r := sess.Run(c.Kind, tgt(c.User), units)
	resps, err := sess.Decode(r.Pkts)
	accepts := g.newAccepts(marks, channelSuccesses(resps))
	if r.OpenStatus != 0 {
		return viol("c03/open", "transport did not open: %d %s", r.OpenStatus, r.OpenErr)
	}
	if err != nil {
		return viol("c03/decode", "%v", err)
	}
	var ch *tsgu.Resp
	for i := range resps {
		if resps[i].Type == tsgu.PktChannelResponse {
			ch = &resps[i]
			break
		}
	}
	desc := fmt.Sprintf("mode=%q hosts=%v user=%q tokenAuth=%v tokenHost=%q requested=%q (%s) -> responses %v, connections to %v",
		c.Mode, c.Entries, c.User, c.TokenAuth, tokenHost, hp, c.What, resps, accepts)
	if len(resps) < 3 || resps[2].Type != tsgu.PktTunnelAuthResponse || resps[2].Status != 0 {
		return viol("c03/setup", "set-up before the channel request failed: %s", desc)
	}
	eps := endpointsOf(hp)
	if c.CbOver > 0 {
		// malformed request: refusing is fine; using the carried name is fine when policy allows it
		for _, a := range accepts {
			if !allowed || !eps[a] {
				return viol("c03/connected-on-malformed", "over-long name size, yet a connection was made: %s", desc)
			}
		}
		return nil
	}
	if !allowed {
		if len(accepts) != 0 {
			sig := "c03/connected-although-refused"
			if !decodable {
				sig = "c03/connected-for-undecodable-name"
			}
			return viol(sig, "policy refuses this host, yet the gateway connected: %s", desc)
		}
		if ch != nil && ch.Status == 0 {
			return viol("c03/success-although-refused", "policy refuses this host, yet the channel response reports success: %s", desc)
		}
		if decodable && (ch == nil || ch.Status != tsgu.ErrRAPDenied) {
			return viol("c03/refusal-status", "a refused host must be answered with the resource-access-denied status: %s", desc)
		}
		return nil
	}
	// allowed
	if name == "" && c.Mode == "any" {
		return nil // UNSPECIFIED: an empty server name in 'any' mode
	}
	for _, a := range accepts {
		if !eps[a] {
			return viol("c03/wrong-endpoint", "the gateway connected to %s, which is not what %q denotes: %s", a, hp, desc)
		}
	}
	if len(accepts) > 1 {
		return viol("c03/several-connections", "more than one connection: %s", desc)
	}
	connectable := false
	for e := range eps {
		h, p, _ := net.SplitHostPort(e)
		pn, _ := strconv.Atoi(p)
		if ip := net.ParseIP(h); ip != nil && ip.IsLoopback() && pn >= P-1 && pn <= P+1 {
			connectable = true
		}
	}
	if connectable {
		if ch == nil || ch.Status != 0 || len(accepts) != 1 {
			return viol("c03/allowed-not-connected", "policy allows this live host, but no channel was created: %s", desc)
		}
	} else if len(eps) == 0 {
		// the name denotes no address at all (not an IP literal, not localhost, unresolvable here): success is
		// impossible. A loopback endpoint outside the harness's three ports may belong to anybody: no claim.
		if ch != nil && ch.Status == 0 {
			return viol("c03/success-without-connection", "channel response reports success although %q is not connectable: %s", hp, desc)
		}
	}
	return nil
}

func c03Opts(c c03Case, P int) gwOpts {
	var hosts []string
	for _, e := range c.Entries {
		hosts = append(hosts, strings.ReplaceAll(strings.ReplaceAll(e, "$P", strconv.Itoa(P)), "$Q", strconv.Itoa(P+1)))
	}
	return gwOpts{TokenAuth: c.TokenAuth, HostSelection: c.Mode, Hosts: hosts, VerifyIP: !c.NoVerify}
}

func classifyC03(c c03Case) (bool, []string) {
	return true, []string{"mode=" + c.Mode, "what=" + c.What, "kind=" + c.Kind, fmt.Sprintf("tokenauth=%v", c.TokenAuth)}
}

func TestC03_INP(t *testing.T) {
	runProp(t, "C03_INP", genC03, classifyC03, func(c c03Case) *Violation {
		P := theGrid().P
		o := c03Opts(c, P)
		return withGateway(mkGateway(o), func() *Violation {
			return runC03On(c, func(user string) gwc.Target { return inpTarget(userHeader(o, user)...) }, o, P)
		})
	})
}

type c03Bin struct {
	Cfg   c03Case   `json:"config"`
	Batch []c03Case `json:"batch"`
}

func TestC03_BIN(t *testing.T) {
	runProp(t, "C03_BIN", func(t *rapid.T) c03Bin {
		full := genC03(t)
		b := c03Bin{Cfg: c03Case{Mode: full.Mode, Entries: full.Entries, TokenAuth: full.TokenAuth, NoVerify: full.NoVerify}, Batch: []c03Case{full}}
		for i, n := 0, rapid.IntRange(0, 14).Draw(t, "batch"); i < n; i++ {
			b.Batch = append(b.Batch, genC03Req(t, b.Cfg))
		}
		return b
	}, func(b c03Bin) (bool, []string) {
		cl := []string{"mode=" + b.Cfg.Mode}
		for _, c := range b.Batch {
			cl = append(cl, "what="+c.What)
		}
		return true, cl
	}, func(b c03Bin) *Violation {
		P := theGrid().P
		o := c03Opts(b.Cfg, P)
		in, _, err := binFor(o, "x")
		if err != nil {
			return viol("bin/start", "%v", err)
		}
		for i, c := range b.Batch {
			v := runC03On(c, func(user string) gwc.Target {
				_, tgt, _ := binFor(o, user)
				return tgt
			}, o, P)
			if v != nil {
				v.Msg = fmt.Sprintf("sub-case %d: %s", i, v.Msg)
				return v
			}
		}
		return binHealth(in)
	})
}
