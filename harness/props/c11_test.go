package props

import (
	"fmt"
	"runtime"
	"strings"
	"testing"
	"time"

	"github.com/bolkedebruin/rdpgw/cmd/rdpgw/protocol"
	"github.com/prometheus/client_golang/prometheus"
	"pgregory.net/rapid"

	"verif/harness/lab/backend"
	"verif/harness/lab/gwc"
	"verif/harness/lab/sess"
	"verif/harness/lab/tsgu"
)

// C11 — ending a tunnel releases the backend connection and all per-tunnel resources.

type c11Case struct {
	Opts     gwOpts `json:"gateway"`
	Kind     string `json:"transport"`
	Phase    int    `json:"phase"`     // steps completed before the end: 0 none, 1 handshake, 2 tunnel, 3 auth, 4 channel, 5 channel+data
	InFlight string `json:"in_flight"` // none | client | host | both | host-hung-up (the host closed its connection before the client ends the tunnel) | host-hung-up-client (... and the client still sends)
	Ending   string `json:"ending"`    // close | out-of-order | unframeable | fin | rst | fin-out | rst-out | last-chunk | second-channel (a further CHANNEL_CREATE, then the client drops)
	DupIn    bool   `json:"duplicate_in,omitempty"` // legacy: a second RDG_IN_DATA with the same connection id arrives while the tunnel is live
	Stalled  bool   `json:"stalled_client,omitempty"` // websocket: the client stops reading while the host keeps sending, then ends the tunnel without eliciting a response
}

const releaseBound = 5 * time.Second

func genC11(t *rapid.T) c11Case {
	c := c11Case{Opts: genC01Opts(t), Kind: genKind(t)}
	c.Phase = rapid.IntRange(0, 5).Draw(t, "phase")
	if rapid.IntRange(0, 2).Draw(t, "deep") > 0 {
		c.Phase = rapid.IntRange(4, 5).Draw(t, "deepPhase")
	}
	if c.Phase >= 4 {
		c.InFlight = rapid.SampledFrom([]string{"none", "client", "host", "both", "host-hung-up", "host-hung-up-client"}).Draw(t, "inflight")
	} else {
		c.InFlight = "none"
	}
	ends := []string{"close", "out-of-order", "unframeable", "fin", "rst"}
	if c.Kind == "legacy" && rapid.IntRange(0, 5).Draw(t, "outEnding") == 0 {
		// dropping only the RDG_OUT_DATA connection is a listed open finding: keep it rare so that the search
		// spends its time behind it (each such case waits for the full release bound)
		ends = []string{"fin-out", "rst-out"}
	}
	c.Ending = rapid.SampledFrom(ends).Draw(t, "ending")
	if c.Kind == "legacy" && c.Phase >= 1 {
		c.DupIn = rapid.IntRange(0, 3).Draw(t, "dupIn") == 0
	}
	if c.Kind == "legacy" && rapid.IntRange(0, 4).Draw(t, "lastChunk") == 0 {
		c.Ending = "last-chunk" // the client (or a proxy in front) ends the RDG_IN_DATA body with the terminating zero-length chunk
	}
	if c.Phase >= 4 && rapid.IntRange(0, 7).Draw(t, "secondChannel") == 0 {
		c.Ending = "second-channel"
	}
	if rapid.IntRange(0, 7).Draw(t, "dropDuringDial") == 0 {
		// the client sends CHANNEL_CREATE and drops (reset or close) without waiting for the answer: the gateway is
		// checking the host or dialing at that moment
		c.Phase, c.InFlight, c.DupIn = 3, "none", false
		c.Ending = rapid.SampledFrom([]string{"channel-create-then-rst", "channel-create-then-fin"}).Draw(t, "dialEnding")
	}
	if c.Kind == "legacy" && rapid.IntRange(0, 9).Draw(t, "beforePreamble") == 0 {
		// RDG_IN_DATA has been accepted (200), the client drops it before sending a single byte
		c.Phase, c.InFlight, c.DupIn = 0, "none", false
		c.Ending = rapid.SampledFrom([]string{"in-fin-before-first-byte", "in-rst-before-first-byte"}).Draw(t, "preambleEnding")
	}
	if c.Kind == "ws" && c.Phase >= 4 && rapid.IntRange(0, 5).Draw(t, "stalled") == 0 {
		// endings that need no response from the gateway (a response could not be written to a client that
		// does not read; that combination is not explored, see DESIGN.md)
		c.Stalled = true
		c.InFlight = "host"
		c.Ending = rapid.SampledFrom([]string{"unframeable", "fin", "rst"}).Draw(t, "stalledEnding")
	}
	return c
}

func protocolGoroutines() (int, string) {
	buf := make([]byte, 1<<20)
	n := runtime.Stack(buf, true)
	cnt := 0
	var sample string
	for _, g := range strings.Split(string(buf[:n]), "\n\n") {
		if strings.Contains(g, "bolkedebruin/rdpgw/cmd/rdpgw/protocol.") {
			cnt++
			if sample == "" {
				sample = g
			}
		}
	}
	return cnt, sample
}

func gauges() map[string]float64 {
	out := map[string]float64{}
	mfs, err := prometheus.DefaultGatherer.Gather()
	if err != nil {
		return out
	}
	for _, mf := range mfs {
		if strings.HasPrefix(mf.GetName(), "rdpgw_") && len(mf.Metric) == 1 && mf.Metric[0].Gauge != nil {
			out[mf.GetName()] = mf.Metric[0].Gauge.GetValue()
		}
	}
	return out
}

// waitFor polls cond until it holds or the release bound has passed.
func waitFor(cond func() bool) bool {
	deadline := time.Now().Add(releaseBound)
	for {
		if cond() {
			return true
		}
		if time.Now().After(deadline) {
			return false
		}
		time.Sleep(500 * time.Microsecond)
	}
}

// waitLong is waitFor for events whose delay is not what is being judged (answers on a machine that may be busy)
func waitLong(cond func() bool) bool {
	deadline := time.Now().Add(30 * time.Second)
	for {
		if cond() {
			return true
		}
		if time.Now().After(deadline) {
			return false
		}
		time.Sleep(500 * time.Microsecond)
	}
}

func runC11(c c11Case) *Violation {
	o := resolveHosts(c.Opts)
	return withGateway(mkGateway(o), func() *Violation {
		w := W()
		inp().WaitIdle(releaseBound)
		waitFor(func() bool { n, _ := protocolGoroutines(); return n == 0 })
		baseConns := len(protocol.Connections)
		baseG := gauges()
		snap := w.snap()
		defer w.observe(snap, 0)
		tgt := inpTarget(userHeader(o, w.User)...)
		connID := sess.NewConnID()
		var conn gwc.Conn
		var err error
		if strings.HasSuffix(c.Ending, "-before-first-byte") {
			var l *gwc.Legacy
			if l, err = gwc.OpenOut(tgt, connID); err == nil {
				l.HoldPreamble = true
				if err = l.OpenIn(tgt, connID); err != nil {
					l.Close()
				}
				conn = l
			}
		} else {
			conn, err = gwc.Dial(c.Kind, tgt, connID)
		}
		if err != nil {
			return viol("c11/open", "transport did not open: %v", err)
		}
		defer conn.Close()
		cookie := "none"
		if o.TokenAuth {
			cookie = "valid:A"
		}
		steps := []PktSpec{{K: "hs", Caps: o.serverCaps()}, {K: "tc", Cookie: cookie}, {K: "ta"}, {K: "cc", Host: "A"}, {K: "data", Payload: []byte("first data")}}
		n := c.Phase
		units, _ := render(histCfg{Opts: o, Kind: c.Kind}, steps[:n], "127.0.0.1")
		for _, u := range units {
			if err := conn.Send(u); err != nil {
				return viol("c11/setup", "send failed during set-up: %v", err)
			}
		}
		// wait for the set-up responses (phases 1-4 each answer once)
		wantResp := n
		if wantResp > 4 {
			wantResp = 4
		}
		if !waitFor(func() bool { return countPackets(conn) >= wantResp }) {
			return viol("c11/setup", "set-up got %d of %d responses", countPackets(conn), wantResp)
		}
		var host *backend.Conn
		if c.Phase >= 4 {
			host = w.L["A"].WaitAccept(snap["A"]+1, releaseBound)
			if host == nil {
				return viol("c11/setup", "no backend connection after channel creation")
			}
			if c.Phase == 5 && !host.WaitBytes(len("first data"), releaseBound) {
				return viol("c11/setup", "data not relayed during set-up")
			}
		}
		if c.DupIn {
			// a retried RDG_IN_DATA for the live connection id: it must be refused and change nothing
			if l2, err := gwc.OpenInOnly(tgt, connID); l2 != nil {
				if err == nil {
					l2.WaitInClosed(releaseBound)
				}
				l2.Close()
			}
		}
		// traffic in flight at the moment of the end
		stopHost := make(chan struct{})
		hostDone := make(chan struct{})
		if c.Stalled {
			conn.(*gwc.WS).Pause(true)
			host.Flood(streamBytes(5, 0, 1<<20), 300*time.Millisecond, 256<<20)
			close(hostDone)
		} else if c.InFlight == "host" || c.InFlight == "both" {
			go func() {
				defer close(hostDone)
				chunk := streamBytes(7, 0, 3000)
				for {
					select {
					case <-stopHost:
						return
					default:
					}
					if host.Write(chunk) != nil {
						return
					}
				}
			}()
			// make sure the relay is busy
			waitFor(func() bool { return len(conn.Stream()) > 20000 })
		} else {
			close(hostDone)
		}
		if strings.HasPrefix(c.InFlight, "host-hung-up") && host != nil {
			// the remote desktop host ends its side first (a session that logged off); the client ends the tunnel afterwards
			host.Close()
			time.Sleep(30 * time.Millisecond)
		}
		if c.InFlight == "client" || c.InFlight == "both" || c.InFlight == "host-hung-up-client" {
			for i := 0; i < 5; i++ {
				conn.Send(tsgu.Data(streamBytes(9, i*2000, 2000)))
			}
		}
		// the ending event
		clientClosedAll := false
		switch c.Ending {
		case "close":
			conn.Send(tsgu.CloseChannel())
		case "out-of-order":
			if c.Phase == 0 {
				conn.Send(tsgu.TunnelAuth("x"))
			} else {
				conn.Send(tsgu.Handshake(0, 0, 0, o.serverCaps()))
			}
		case "unframeable":
			conn.Send(append(tsgu.Header(tsgu.PktData, 3), 1, 2, 3, 4))
			if lg, ok := conn.(*gwc.Legacy); ok {
				lg.Send([]byte{0}) // the reader needs another read to see the bad header when it arrived in pieces
			}
		case "last-chunk":
			conn.(*gwc.Legacy).SendRawIn([]byte("0\r\n\r\n"))
		case "in-fin-before-first-byte", "in-rst-before-first-byte":
			conn.(*gwc.Legacy).CloseIn(c.Ending == "in-rst-before-first-byte")
		case "channel-create-then-rst", "channel-create-then-fin":
			u2, _ := render(histCfg{Opts: o, Kind: c.Kind}, []PktSpec{{K: "cc", Host: "A"}}, "127.0.0.1")
			rst := c.Ending == "channel-create-then-rst"
			switch cc := conn.(type) {
			case *gwc.WS:
				cc.Send(u2[0])
				if rst {
					cc.Reset()
				} else {
					cc.Close()
				}
				clientClosedAll = true
			case *gwc.Legacy:
				cc.Pipeline = true
				cc.Send(u2[0])
				cc.CloseOut(rst) // the answer would go to this connection
				cc.CloseIn(rst)
				clientClosedAll = true
			}
			w.L["A"].WaitAccept(snap["A"]+1, 500*time.Millisecond)
		case "second-channel":
			// a further CHANNEL_CREATE on a tunnel that has its channel; whatever the gateway makes of it (it is out
			// of order), the client then drops - every host connection made for this tunnel must be released
			before := countPackets(conn)
			u2, _ := render(histCfg{Opts: o, Kind: c.Kind}, []PktSpec{{K: "cc", Host: "A"}}, "127.0.0.1")
			conn.Send(u2[0])
			waitFor(func() bool { return countPackets(conn) > before || conn.WaitEOF(0) })
			w.L["A"].WaitAccept(snap["A"]+2, 300*time.Millisecond)
			switch cc := conn.(type) {
			case *gwc.WS:
				cc.Close()
				clientClosedAll = true
			case *gwc.Legacy:
				cc.CloseIn(false)
			}
		case "fin", "rst":
			switch cc := conn.(type) {
			case *gwc.WS:
				if c.Ending == "rst" {
					cc.Reset()
				} else {
					cc.Close()
				}
				clientClosedAll = true
			case *gwc.Legacy:
				cc.CloseIn(c.Ending == "rst")
			}
		case "fin-out", "rst-out":
			conn.(*gwc.Legacy).CloseOut(c.Ending == "rst-out")
		}
		defer close(stopHost)
		// the gateway does not notice that the client dropped the RDG_OUT_DATA connection (listed finding):
		// every failure of such a case gets one signature
		sig := func(s string) string {
			if strings.HasSuffix(c.Ending, "-out") {
				return "c11/legacy-out-dropped"
			}
			return s
		}
		desc := fmt.Sprintf("%s, ended in phase %d by %s with %s traffic in flight", c.Kind, c.Phase, c.Ending, c.InFlight)
		// 1. the backend connection is closed by the gateway
		if host != nil && !host.WaitEOF(releaseBound) {
			return viol(sig("c11/backend-not-closed/"+c.Ending), "the connection to the remote desktop host is still open %v after the tunnel ended (%s)", releaseBound, desc)
		}
		for i, hc := range w.L["A"].Conns()[snap["A"]:] {
			if !hc.WaitEOF(releaseBound) {
				return viol(sig("c11/backend-not-closed/"+c.Ending), "connection %d of those made to the remote desktop host for this tunnel is still open %v after the tunnel ended (%s)", i+1, releaseBound, desc)
			}
		}
		if c.Stalled {
			// while the client still does not read: the handler and its goroutines must be gone already
			if !inp().WaitIdle(releaseBound) {
				return viol(sig("c11/handler-still-running/stalled-client"), "%d request handler(s) still running while the client does not read (%s)", inp().Active(), desc)
			}
			if ws, ok := conn.(*gwc.WS); ok {
				ws.Pause(false)
			}
		}
		// 2. the client-facing connections are closed by the gateway
		if !clientClosedAll {
			switch cc := conn.(type) {
			case *gwc.WS:
				if !cc.WaitEOF(releaseBound) {
					return viol(sig("c11/client-conn-not-closed/ws"), "the websocket connection is still open %v after the tunnel ended (%s)", releaseBound, desc)
				}
			case *gwc.Legacy:
				if !strings.HasSuffix(c.Ending, "-out") && !cc.WaitEOF(releaseBound) {
					return viol(sig("c11/client-conn-not-closed/legacy-out"), "the RDG_OUT_DATA connection is still open %v after the tunnel ended (%s)", releaseBound, desc)
				}
				if c.Ending != "fin" && c.Ending != "rst" && !strings.HasSuffix(c.Ending, "-before-first-byte") && !cc.WaitInClosed(releaseBound) {
					return viol(sig("c11/client-conn-not-closed/legacy-in"), "the RDG_IN_DATA connection is still open %v after the tunnel ended (%s)", releaseBound, desc)
				}
			}
		}
		conn.Close()
		// 3. handlers and goroutines
		if !inp().WaitIdle(releaseBound) {
			return viol(sig("c11/handler-still-running"), "%d request handler(s) still running (%s)", inp().Active(), desc)
		}
		if !waitFor(func() bool { n, _ := protocolGoroutines(); return n == 0 }) {
			n, s := protocolGoroutines()
			return viol(sig("c11/goroutine-leak"), "%d goroutine(s) still inside the protocol package (%s), e.g.\n%s", n, desc, s)
		}
		// 4. registry and gauges (read after every handler has exited)
		if got := len(protocol.Connections); got != baseConns {
			return viol(sig("c11/registry"), "connection registry has %d entries, had %d before the tunnel (%s)", got, baseConns, desc)
		}
		g := gauges()
		for _, name := range []string{"rdpgw_websocket_connections", "rdpgw_legacy_connections"} {
			if g[name] != baseG[name] {
				return viol(sig("c11/gauge/"+name), "%s is %v, was %v before the tunnel (%s)", name, g[name], baseG[name], desc)
			}
		}
		<-hostDone
		return nil
	})
}

func countPackets(c gwc.Conn) int {
	if c.Kind() == "ws" {
		return len(c.Units())
	}
	p, _ := tsgu.SplitStream(c.Stream())
	return len(p)
}

func TestC11_INP(t *testing.T) {
	runProp(t, "C11_INP", genC11, func(c c11Case) (bool, []string) {
		cl := []string{"kind=" + c.Kind, fmt.Sprintf("phase=%d", c.Phase), "ending=" + c.Ending, "inflight=" + c.InFlight}
		if c.DupIn {
			cl = append(cl, "duplicate-in")
		}
		if c.Stalled {
			cl = append(cl, "stalled-client")
		}
		return c.Phase >= 4 || c.InFlight != "none", cl
	}, runC11)
}

// ---- BIN: the same endings against the real binary; gauges and goroutines are read from /metrics ----

func TestC11_BIN(t *testing.T) {
	runProp(t, "C11_BIN", func(t *rapid.T) c11Case {
		c := genC11(t)
		c.Stalled, c.DupIn = false, false
		if strings.HasSuffix(c.Ending, "-out") {
			c.Ending = "fin" // the open finding about dropped RDG_OUT_DATA connections is probed in-process
		}
		if strings.HasPrefix(c.Ending, "channel-create-then") || strings.HasSuffix(c.Ending, "-before-first-byte") {
			c.Ending = "rst" // probed in-process
		}
		return c
	}, func(c c11Case) (bool, []string) {
		return c.Phase >= 4 || c.InFlight != "none", []string{"kind=" + c.Kind, fmt.Sprintf("phase=%d", c.Phase), "ending=" + c.Ending, "inflight=" + c.InFlight}
	}, func(c c11Case) *Violation {
		o := resolveHosts(c.Opts)
		in, tgt, err := binFor(o, W().User)
		if err != nil {
			return viol("bin/start", "%v", err)
		}
		w := W()
		metric := func(name string) float64 {
			m, err := in.Metrics()
			if err != nil {
				return -1
			}
			return m[name]
		}
		// quiescent baseline (earlier cases of this process have ended)
		waitFor(func() bool { return metric("rdpgw_websocket_connections") == 0 && metric("rdpgw_legacy_connections") == 0 })
		baseG := metric("go_goroutines")
		snap := w.snap()
		defer w.observe(snap, 0)
		conn, err := gwc.Dial(c.Kind, tgt, sess.NewConnID())
		if err != nil {
			return viol("c11/open", "transport did not open: %v", err)
		}
		defer conn.Close()
		cookie := "none"
		if o.TokenAuth {
			cookie = "valid:A"
		}
		steps := []PktSpec{{K: "hs", Caps: o.serverCaps()}, {K: "tc", Cookie: cookie}, {K: "ta"}, {K: "cc", Host: "A"}, {K: "data", Payload: []byte("first data")}}
		units, _ := render(histCfg{Opts: o, Kind: c.Kind}, steps[:c.Phase], "127.0.0.1")
		for _, u := range units {
			conn.Send(u)
		}
		wantResp := c.Phase
		if wantResp > 4 {
			wantResp = 4
		}
		if !waitFor(func() bool { return countPackets(conn) >= wantResp }) {
			return viol("c11/setup", "set-up got %d of %d responses", countPackets(conn), wantResp)
		}
		var host *backend.Conn
		if c.Phase >= 4 {
			if host = w.L["A"].WaitAccept(snap["A"]+1, releaseBound); host == nil {
				return viol("c11/setup", "no backend connection after channel creation")
			}
		}
		during := metric("rdpgw_websocket_connections") + metric("rdpgw_legacy_connections")
		if during < 1 && c.Phase >= 1 { // a response was received, so the handler is past its gauge increment
			return viol("c11/gauge-not-raised", "no connection gauge counts the live tunnel (%v)", during)
		}
		stop := make(chan struct{})
		defer close(stop)
		if host != nil && (c.InFlight == "host" || c.InFlight == "both") {
			go func() {
				chunk := streamBytes(7, 0, 3000)
				for {
					select {
					case <-stop:
						return
					default:
					}
					if host.Write(chunk) != nil {
						return
					}
				}
			}()
			waitFor(func() bool { return len(conn.Stream()) > 20000 })
		}
		if c.InFlight == "client" || c.InFlight == "both" {
			for i := 0; i < 5; i++ {
				conn.Send(tsgu.Data(streamBytes(9, i*2000, 2000)))
			}
		}
		switch c.Ending {
		case "close":
			conn.Send(tsgu.CloseChannel())
		case "out-of-order":
			if c.Phase == 0 {
				conn.Send(tsgu.TunnelAuth("x"))
			} else {
				conn.Send(tsgu.Handshake(0, 0, 0, o.serverCaps()))
			}
		case "unframeable":
			conn.Send(append(tsgu.Header(tsgu.PktData, 3), 1, 2, 3, 4))
		case "last-chunk":
			conn.(*gwc.Legacy).SendRawIn([]byte("0\r\n\r\n"))
		case "second-channel":
			before := countPackets(conn)
			u2, _ := render(histCfg{Opts: o, Kind: c.Kind}, []PktSpec{{K: "cc", Host: "A"}}, "127.0.0.1")
			conn.Send(u2[0])
			waitFor(func() bool { return countPackets(conn) > before || conn.WaitEOF(0) })
			w.L["A"].WaitAccept(snap["A"]+2, 300*time.Millisecond)
			switch cc := conn.(type) {
			case *gwc.WS:
				cc.Close()
			case *gwc.Legacy:
				cc.CloseIn(false)
			}
		case "fin", "rst":
			switch cc := conn.(type) {
			case *gwc.WS:
				if c.Ending == "rst" {
					cc.Reset()
				} else {
					cc.Close()
				}
			case *gwc.Legacy:
				cc.CloseIn(c.Ending == "rst")
			}
		}
		desc := fmt.Sprintf("real binary, %s, ended in phase %d by %s with %s traffic in flight", c.Kind, c.Phase, c.Ending, c.InFlight)
		if host != nil && !host.WaitEOF(releaseBound) {
			return viol("c11/backend-not-closed/"+c.Ending, "the connection to the remote desktop host is still open %v after the tunnel ended (%s)", releaseBound, desc)
		}
		for i, hc := range w.L["A"].Conns()[snap["A"]:] {
			if !hc.WaitEOF(releaseBound) {
				return viol("c11/backend-not-closed/"+c.Ending, "connection %d of those made to the remote desktop host for this tunnel is still open %v after the tunnel ended (%s)", i+1, releaseBound, desc)
			}
		}
		if c.Ending != "fin" && c.Ending != "rst" || c.Kind == "legacy" {
			if !conn.WaitEOF(releaseBound) {
				return viol("c11/client-conn-not-closed/"+c.Kind, "a client-facing connection is still open %v after the tunnel ended (%s)", releaseBound, desc)
			}
		}
		conn.Close()
		if !waitFor(func() bool { return metric("rdpgw_websocket_connections") == 0 && metric("rdpgw_legacy_connections") == 0 }) {
			return viol("c11/gauge/not-restored", "connection gauges not restored: websocket %v legacy %v (%s)", metric("rdpgw_websocket_connections"), metric("rdpgw_legacy_connections"), desc)
		}
		if !waitFor(func() bool { return metric("go_goroutines") <= baseG+1 }) {
			return viol("c11/goroutine-leak", "go_goroutines is %v, was %v before the tunnel (%s)", metric("go_goroutines"), baseG, desc)
		}
		return binHealthQuick(in)
	})
}
