package props

import (
	"fmt"
	"io"
	"net"
	"net/http"
	"net/url"
	"strings"
	"sync"
	"testing"
	"time"

	"github.com/bolkedebruin/rdpgw/cmd/rdpgw/identity"
	"github.com/bolkedebruin/rdpgw/cmd/rdpgw/security"
	"pgregory.net/rapid"

	"verif/harness/lab/gwc"
	"verif/harness/lab/idp"
	"verif/harness/lab/sess"
	"verif/harness/lab/tsgu"
)

// C04 — tokens are bound to the client address they were issued to.

type c04Side struct {
	IP  string   `json:"tcp_source"`      // loopback address the client socket is bound to
	XFF []string `json:"x_forwarded_for"` // header lines; nil = header absent
}

type c04Case struct {
	Verify bool    `json:"verify_client_ip"`
	Issue  c04Side `json:"issue"`
	Use    c04Side `json:"use"`
	Kind   string  `json:"transport"`
	Rel    string  `json:"relation"`
	// Out: legacy only, optional: the RDG_OUT_DATA connection comes from this address while the RDG_IN_DATA
	// connection, which carries the token, comes from Use.
	Out *c04Side `json:"legacy_out_side,omitempty"`
	// ExtraReq: legacy only: between tunnel authorization and the channel request another request with the same
	// connection identifier arrives from the presenting address (a retried RDG_IN_DATA / RDG_OUT_DATA). It must change nothing.
	ExtraReq string `json:"extra_request_same_id,omitempty"`
	Signed bool `json:"signed_host_selection,omitempty"` // the gateway runs signed host selection (which allows no channel at the tunnel by itself): a token from another address must still not get one
}

// refAddr is the reference client-address function of the statement.
func refAddr(s c04Side) string {
	// HTTP strips optional whitespace around a field value: a blank line is an empty (absent) value
	if len(s.XFF) > 0 && strings.TrimSpace(s.XFF[0]) != "" {
		return strings.TrimSpace(strings.Split(s.XFF[0], ",")[0])
	}
	return s.IP
}

var c04IPs = []string{"127.0.0.1", "127.0.0.2", "127.0.0.3", "127.0.1.1", "::1"}
var c04Far = []string{"10.1.2.3", "10.1.2.4", "192.168.7.9", "2001:db8::1", "2001:db8::2", "2001:DB8::1", "2001:db8:0:0:0:0:0:1", "::ffff:10.1.2.3", "junk", ""}

func genChain(t *rapid.T, first string) []string {
	n := rapid.IntRange(0, 4).Draw(t, "chainExtra")
	if rapid.IntRange(0, 4).Draw(t, "longChain") == 0 {
		n = rapid.IntRange(5, 40).Draw(t, "chainLong") // many proxies in front
	}
	el := []string{first}
	for i := 0; i < n; i++ {
		el = append(el, rapid.SampledFrom(append(c04Far[:6:6], c04IPs...)).Draw(t, "proxy"))
	}
	sep := rapid.SampledFrom([]string{",", ", ", " ,", " , "}).Draw(t, "sep")
	line := strings.Join(el, sep)
	if rapid.IntRange(0, 5).Draw(t, "pad") == 0 {
		line = " " + line + " "
	}
	lines := []string{line}
	if rapid.IntRange(0, 5).Draw(t, "secondLine") == 0 {
		lines = append(lines, rapid.SampledFrom(c04Far[:6]).Draw(t, "line2"))
	}
	return lines
}

func genC04(t *rapid.T) c04Case {
	c := c04Case{Verify: rapid.IntRange(0, 3).Draw(t, "verify") > 0, Kind: genKind(t)}
	c.Signed = rapid.IntRange(0, 5).Draw(t, "signedSelection") == 0
	c.Issue.IP = rapid.SampledFrom(c04IPs).Draw(t, "issueIP")
	if rapid.Bool().Draw(t, "issueXFF") {
		c.Issue.XFF = genChain(t, rapid.SampledFrom(append(c04Far, c04IPs...)).Draw(t, "issueFirst"))
	}
	c.Rel = rapid.SampledFrom([]string{"same", "same", "other-ip", "last-octet", "extra-element", "xff-vs-peer", "xff-dropped", "xff-added", "text-variant", "free", "same-proxies", "same-proxies", "lead-chars"}).Draw(t, "rel")
	a := refAddr(c.Issue)
	c.Use = c04Side{IP: c.Issue.IP, XFF: c.Issue.XFF}
	switch c.Rel {
	case "same":
	case "other-ip":
		c.Use.IP = rapid.SampledFrom(c04IPs).Draw(t, "useIP")
	case "last-octet":
		if c.Issue.XFF != nil {
			c.Use.XFF = []string{a + "1"}
			if ip := net.ParseIP(a); ip != nil && ip.To4() != nil {
				v := ip.To4()
				c.Use.XFF = []string{fmt.Sprintf("%d.%d.%d.%d", v[0], v[1], v[2], v[3]^1)}
			}
		} else {
			c.Use.IP = map[string]string{"127.0.0.1": "127.0.0.2", "127.0.0.2": "127.0.0.3", "127.0.0.3": "127.0.0.2", "127.0.1.1": "127.0.0.1", "::1": "127.0.0.1"}[c.Issue.IP]
		}
	case "extra-element": // same first element, longer chain
		c.Use.XFF = []string{a + ", 10.9.9.9"}
		if c.Issue.XFF == nil {
			c.Use.XFF = []string{c.Issue.IP + ", 10.9.9.9"}
		}
	case "xff-vs-peer": // equal addresses through different routes
		if c.Issue.XFF == nil {
			c.Use.XFF = []string{c.Issue.IP}
			c.Use.IP = rapid.SampledFrom(c04IPs).Draw(t, "useIP")
		} else if contains(c04IPs, a) {
			c.Use.XFF = nil
			c.Use.IP = a
		}
	case "lead-chars": // two different addresses that differ only in leading characters (f, :, 0)
		pair := rapid.SampledFrom([][2]string{{"fd00:10::7", "d00:10::7"}, {"fe80::1", "e80::1"}, {"::1", "f::1"}, {"ff02::5", "2::5"},
			{"f::f", "::f"}, {"10.1.2.3", "0.1.2.3"}, {"fd00::1", "::fd00:0:0:1"}}).Draw(t, "pair")
		if rapid.Bool().Draw(t, "swap") {
			pair[0], pair[1] = pair[1], pair[0]
		}
		c.Issue.XFF, c.Use.XFF = []string{pair[0]}, []string{pair[1]}
	case "xff-dropped":
		c.Use.XFF = nil
	case "same-proxies": // another client behind the very same chain of proxies
		if c.Issue.XFF == nil {
			c.Issue.XFF = genChain(t, rapid.SampledFrom(c04Far[:6]).Draw(t, "issueFirst2"))
			a = refAddr(c.Issue)
		}
		lines := append([]string(nil), c.Issue.XFF...)
		other := rapid.SampledFrom([]string{"10.1.2.3", "10.1.2.4", "192.168.7.9", "2001:db8::2", "203.0.113.9"}).Draw(t, "otherClient")
		if other == a {
			other = "198.51.100.7"
		}
		if i := strings.IndexByte(lines[0], ','); i >= 0 {
			lines[0] = other + lines[0][i:]
		} else {
			lines[0] = other
		}
		c.Use.XFF = lines
	case "xff-added":
		c.Use.XFF = genChain(t, rapid.SampledFrom(append(c04Far, c04IPs...)).Draw(t, "useFirst"))
	case "text-variant":
		v := map[string]string{"2001:db8::1": "2001:DB8::1", "2001:DB8::1": "2001:db8:0:0:0:0:0:1", "10.1.2.3": "::ffff:10.1.2.3", "::1": "0:0:0:0:0:0:0:1", "127.0.0.1": "::ffff:127.0.0.1"}[a]
		if v != "" {
			c.Use.XFF = []string{v}
		}
	case "free":
		c.Use.IP = rapid.SampledFrom(c04IPs).Draw(t, "useIP")
		if rapid.Bool().Draw(t, "useXFF") {
			c.Use.XFF = genChain(t, rapid.SampledFrom(append(c04Far, c04IPs...)).Draw(t, "useFirst"))
		} else {
			c.Use.XFF = nil
		}
	}
	if c.Kind == "legacy" && rapid.IntRange(0, 2).Draw(t, "splitLegacy") == 0 {
		// the two connections of the legacy tunnel come from different addresses
		switch rapid.IntRange(0, 2).Draw(t, "outSide") {
		case 0: // OUT from the issuing address, IN (presenting the token) from the generated Use address
			c.Out = &c04Side{IP: c.Issue.IP, XFF: c.Issue.XFF}
		case 1:
			c.Out = &c04Side{IP: rapid.SampledFrom(c04IPs).Draw(t, "outIP")}
		default:
			c.Out = &c04Side{IP: c.Use.IP, XFF: genChain(t, rapid.SampledFrom(append(c04Far, c04IPs...)).Draw(t, "outFirst"))}
		}
	}
	if c.Kind == "legacy" && c.Out == nil && rapid.IntRange(0, 2).Draw(t, "extraReq") == 0 {
		c.ExtraReq = rapid.SampledFrom([]string{"RDG_IN_DATA", "RDG_OUT_DATA", "GET"}).Draw(t, "extraMethod")
	}
	return c
}

func contains(l []string, s string) bool {
	for _, x := range l {
		if x == s {
			return true
		}
	}
	return false
}

func (s c04Side) headers() [][2]string {
	var h [][2]string
	for _, l := range s.XFF {
		h = append(h, [2]string{"X-Forwarded-For", l})
	}
	return h
}

var issueOnce sync.Once

// installIssuer adds, behind the repository's EnrichContext, an endpoint that mints an access cookie the way
// the download handler does: security.GeneratePAAToken with the request's identity.
func installIssuer() {
	issueOnce.Do(func() {
		inp().Extra = http.HandlerFunc(func(w http.ResponseWriter, r *http.Request) {
			id := identity.FromRequestCtx(r)
			id.SetAttribute(identity.AttrAccessToken, r.URL.Query().Get("at"))
			tok, err := security.GeneratePAAToken(r.Context(), r.URL.Query().Get("user"), r.URL.Query().Get("host"))
			if err != nil {
				http.Error(w, err.Error(), 500)
				return
			}
			io.WriteString(w, tok)
		})
	})
}

// httpGetFrom performs a GET with the socket bound to a local address and extra headers.
func httpGetFrom(localIP, rawurl string, hdr [][2]string, jar http.CookieJar) (int, string, http.Header, error) {
	d := &net.Dialer{Timeout: 5 * time.Second}
	if localIP != "" {
		d.LocalAddr = &net.TCPAddr{IP: net.ParseIP(localIP)}
	}
	cl := &http.Client{Timeout: 15 * time.Second, Jar: jar, Transport: &http.Transport{DialContext: d.DialContext, DisableKeepAlives: true},
		CheckRedirect: func(*http.Request, []*http.Request) error { return http.ErrUseLastResponse }}
	req, err := http.NewRequest("GET", rawurl, nil)
	if err != nil {
		return 0, "", nil, err
	}
	for _, h := range hdr {
		req.Header.Add(h[0], h[1])
	}
	resp, err := cl.Do(req)
	if err != nil {
		return 0, "", nil, err
	}
	defer resp.Body.Close()
	b, _ := io.ReadAll(resp.Body)
	return resp.StatusCode, string(b), resp.Header, nil
}

func gwAddrFor(addr, localIP string) string {
	_, port, _ := net.SplitHostPort(addr)
	if strings.Contains(localIP, ":") {
		return net.JoinHostPort("::1", port)
	}
	return net.JoinHostPort("127.0.0.1", port)
}

// checkC04 runs the presenting side with the cookie and applies the oracle.
func checkC04(c c04Case, cookie string, gwAddr string, extraHdr [][2]string) *Violation {
	w := W()
	units := [][]byte{tsgu.Handshake(1, 0, 0, 2), tsgu.TunnelCreate(cookie, true), tsgu.TunnelAuth("pc"), nil, tsgu.Handshake(0, 0, 0, 2)}
	h, p := splitHP(w.addr("A"))
	units[3] = tsgu.ChannelCreate(h, p)
	snap := w.snap()
	tgt := gwc.Target{Addr: gwAddrFor(gwAddr, c.Use.IP), LocalIP: c.Use.IP, Headers: append(c.Use.headers(), extraHdr...)}
	var r sess.Result
	if c.Kind == "legacy" && c.Out != nil {
		tOut := gwc.Target{Addr: gwAddrFor(gwAddr, c.Out.IP), LocalIP: c.Out.IP, Headers: append(c.Out.headers(), extraHdr...)}
		l, err := gwc.DialLegacySplit(tOut, tgt, sess.NewConnID())
		if err != nil {
			w.observe(snap, 0)
			return viol("c04/open", "legacy transport did not open: %v", err)
		}
		r = sess.RunOn(l, units)
	} else if c.Kind == "legacy" && c.ExtraReq != "" {
		id := sess.NewConnID()
		l, err := gwc.DialLegacy(tgt, id)
		if err != nil {
			w.observe(snap, 0)
			return viol("c04/open", "legacy transport did not open: %v", err)
		}
		for _, u := range units[:3] {
			l.Send(u)
		}
		waitFor(func() bool { return countPackets(l) >= 3 })
		// the extra request, from the presenting address, with the same identifier
		req := fmt.Sprintf("%s %s HTTP/1.1\r\nHost: x\r\nRdg-Connection-Id: %s\r\nConnection: close\r\n", c.ExtraReq, gwc.GatewayPath, id)
		for _, h := range tgt.Headers {
			req += h[0] + ": " + h[1] + "\r\n"
		}
		gwc.RawHTTP(tgt, []byte(req+"Content-Length: 0\r\n\r\n"), 300*time.Millisecond)
		r = sess.RunOn(l, units[3:])
		// responses of the first three steps were collected on the same connection
	} else {
		r = sess.Run(c.Kind, tgt, units)
	}
	resps, err := sess.Decode(r.Pkts)
	acc, _ := w.observe(snap, channelSuccesses(resps))
	if r.OpenStatus != 0 {
		return viol("c04/open", "transport did not open: %d %s", r.OpenStatus, r.OpenErr)
	}
	if err != nil {
		return viol("c04/decode", "%v", err)
	}
	ia, ua := refAddr(c.Issue), refAddr(c.Use)
	desc := fmt.Sprintf("verify=%v issued to %q (%+v), presented from %q (%+v): responses %v, connections %v", c.Verify, ia, c.Issue, ua, c.Use, resps, acc)
	if len(resps) < 3 || resps[1].Status != 0 || resps[2].Status != 0 {
		return viol("c04/setup", "steps before the channel request failed: %s", desc)
	}
	var ch *tsgu.Resp
	if len(resps) >= 4 && resps[3].Type == tsgu.PktChannelResponse {
		ch = &resps[3]
	}
	total := 0
	for _, n := range acc {
		total += n
	}
	if c.Out != nil && c.Kind == "legacy" && refAddr(*c.Out) != ua {
		// split legacy tunnel: the token is presented on the IN connection (address ua). If that address differs
		// from the token's, the channel must be refused whatever the OUT connection's address is; if it equals the
		// token's address while OUT comes from elsewhere, refusing is acceptable too (UNSPECIFIED).
		if ia == ua || !c.Verify {
			if total > 1 || acc["B"] != 0 || acc["D"] != 0 {
				return viol("c04/wrong-connection", "unexpected connections: %s", desc)
			}
			if !c.Verify && !c.Signed && (ch == nil || ch.Status != 0 || acc["A"] != 1) {
				return viol("c04/refused-although-verification-off", "the channel must be created: %s", desc)
			}
			return nil
		}
	}
	same := ia == ua
	pi, pu := net.ParseIP(ia), net.ParseIP(ua)
	sameIP := pi != nil && pu != nil && pi.Equal(pu)
	switch {
	case c.Signed && (!c.Verify || same || sameIP):
		// nothing to assert: signed selection lets no channel through at the tunnel
	case !c.Verify || same:
		if ch == nil || ch.Status != 0 || acc["A"] != 1 || total != 1 {
			sig := "c04/refused-same-address"
			if !c.Verify {
				sig = "c04/refused-although-verification-off"
			}
			return viol(sig, "the channel must be created: %s", desc)
		}
	case sameIP:
		// same address in another spelling: unspecified
	default:
		if total != 0 {
			return viol("c04/connected-from-other-address", "token presented from another address, yet a backend connection was made: %s", desc)
		}
		if ch == nil || (ch.Status != tsgu.ErrRAPDenied && ch.Status != tsgu.ErrAccessDenied) {
			return viol("c04/not-refused", "token presented from another address must be refused with an access-denied status: %s", desc)
		}
	}
	return nil
}

func classifyC04(c c04Case) (bool, []string) {
	cl := []string{"rel=" + c.Rel, "kind=" + c.Kind, fmt.Sprintf("verify=%v", c.Verify)}
	if c.Out != nil {
		cl = append(cl, "legacy-split-addresses")
	}
	if c.ExtraReq != "" {
		cl = append(cl, "extra-request-same-id")
	}
	ia, ua := refAddr(c.Issue), refAddr(c.Use)
	if ia == ua {
		cl = append(cl, "expect=accept")
	} else {
		cl = append(cl, "expect=refuse-or-unspecified")
	}
	return c.Rel != "free", cl
}

func TestC04_INP(t *testing.T) {
	runProp(t, "C04_INP", genC04, classifyC04, func(c c04Case) *Violation {
		w := W()
		installIssuer()
		o := gwOpts{TokenAuth: true, HostSelection: "roundrobin", Hosts: []string{w.addr("A")}, VerifyIP: c.Verify}
		if c.Signed {
			o.HostSelection = "signed"
		}
		return withGateway(mkGateway(o), func() *Violation {
			at := w.IdP.NewAccessToken("ok:" + w.User)
			u := fmt.Sprintf("http://%s/issue?user=%s&host=%s&at=%s", gwAddrFor(inp().Addr, c.Issue.IP), w.User, url.QueryEscape(w.addr("A")), at)
			code, body, _, err := httpGetFrom(c.Issue.IP, u, c.Issue.headers(), nil)
			if err != nil || code != 200 {
				return viol("c04/issue", "issuing a token failed: %v %d %s", err, code, body)
			}
			return checkC04(c, body, inp().Addr, nil)
		})
	})
}

// ---- BIN: issuance through the real login + /connect path of the binary ----

type c04Bin struct {
	VerifyMode string  `json:"verify_setting"` // true | false | default (key absent from the configuration)
	Login      c04Side `json:"login_from"`
	Earlier    *c04Side `json:"earlier_download_from,omitempty"` // the same session downloaded a file from this address a moment before
	EarlierUsed bool    `json:"earlier_file_used,omitempty"`     // ... and opened a tunnel with that file's token from there (both tokens carry the session's one IdP access token)
	Case       c04Case `json:"case"` // Issue = the /connect request that downloads the file
}

func TestC04_BIN(t *testing.T) {
	runProp(t, "C04_BIN", func(t *rapid.T) c04Bin {
		c := c04Bin{VerifyMode: rapid.SampledFrom([]string{"true", "default", "default", "false"}).Draw(t, "verifyMode"), Case: genC04(t)}
		c.Case.Verify = c.VerifyMode != "false"
		c.Case.Signed = false // the instances of this unit run round-robin selection
		c.Login = c.Case.Issue
		if rapid.Bool().Draw(t, "loginElsewhere") {
			c.Login = c04Side{IP: rapid.SampledFrom(c04IPs[:4]).Draw(t, "loginIP")}
		}
		if rapid.IntRange(0, 2).Draw(t, "earlierDownload") == 0 {
			e := c04Side{IP: rapid.SampledFrom(c04IPs[:4]).Draw(t, "earlierIP")}
			if rapid.Bool().Draw(t, "earlierXFF") {
				e.XFF = []string{rapid.SampledFrom(c04Far[:4]).Draw(t, "earlierFirst")}
			}
			c.Earlier = &e
			c.EarlierUsed = rapid.Bool().Draw(t, "earlierUsed")
		}
		if strings.Contains(c.Case.Issue.IP, ":") || strings.Contains(c.Login.IP, ":") || strings.Contains(c.Case.Use.IP, ":") {
			c.Case.Issue.IP, c.Login.IP, c.Case.Use.IP = "127.0.0.1", "127.0.0.2", "127.0.0.1" // the binary listens on IPv4 and IPv6; keep the HTTP client simple
		}
		return c
	}, func(c c04Bin) (bool, []string) {
		nt, cl := classifyC04(c.Case)
		return nt, append(cl, "verify-setting="+c.VerifyMode)
	}, func(c c04Bin) *Violation {
		w := W()
		o := webOpts{Store: "cookie", HostSelection: "roundrobin", Hosts: []string{w.addr("A")}, VerifyIP: c.VerifyMode == "true", VerifyDefault: c.VerifyMode == "default"}
		in, err := webInstance(o)
		if err != nil {
			return viol("bin/start", "%v", err)
		}
		b := newBrowser()
		b.LocalIP, b.XFF = c.Login.IP, c.Login.XFF
		if r, _, err := b.login(in, idp.CodeSpec{Sub: w.User, Username: w.User}); err != nil || r.Code != http.StatusFound {
			return viol("c04/setup", "login failed: %v %d", err, r.Code)
		}
		if c.Earlier != nil {
			b.LocalIP, b.XFF = c.Earlier.IP, c.Earlier.XFF
			r0, err := b.get(in, "/connect")
			if err != nil || r0.Code != 200 {
				return viol("c04/setup", "earlier download failed: %v %d", err, r0.Code)
			}
			if c.EarlierUsed {
				m0, _ := parseRDP(r0.Body)
				if tok0 := rdpString(m0, "gatewayaccesstoken"); tok0 != "" {
					t0 := gwc.Target{Addr: gwAddrFor(in.Addr, c.Earlier.IP), LocalIP: c.Earlier.IP, Headers: c.Earlier.headers()}
					sess.Run("ws", t0, [][]byte{tsgu.Handshake(1, 0, 0, 2), tsgu.TunnelCreate(tok0, true), tsgu.Handshake(0, 0, 0, 2)})
				}
			}
		}
		b.LocalIP, b.XFF = c.Case.Issue.IP, c.Case.Issue.XFF
		r, err := b.get(in, "/connect")
		if err != nil || r.Code != 200 {
			return viol("c04/setup", "download failed: %v %d %s", err, r.Code, shorten(r.Body))
		}
		m, _ := parseRDP(r.Body)
		tok := rdpString(m, "gatewayaccesstoken")
		if tok == "" {
			return viol("c04/setup", "no token in the file")
		}
		if v := checkC04(c.Case, tok, in.Addr, nil); v != nil {
			v.Msg = fmt.Sprintf("(real binary, verify setting %s, logged in from %+v) %s", c.VerifyMode, c.Login, v.Msg)
			return v
		}
		return binHealthQuick(in)
	})
}
