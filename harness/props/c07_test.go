package props

import (
	"bytes"
	"fmt"
	"net"
	"strconv"
	"strings"
	"sync"
	"sync/atomic"
	"testing"
	"time"

	"pgregory.net/rapid"

	"verif/harness/lab/backend"
	"verif/harness/lab/gwc"
	"verif/harness/lab/jwx"
	"verif/harness/lab/sess"
	"verif/harness/lab/tsgu"
)

// C07 — concurrent tunnels are isolated from each other.

type c07Tunnel struct {
	Kind    string   `json:"transport"`
	User    string   `json:"user"`     // "1".."9": the user's own host is 127.0.0.<user>:P
	IDStyle string   `json:"id_style"` // guid | free | none
	Setup   string   `json:"setup"`    // ok | other-users-host | bad-cookie
	Ops     []string `json:"ops"`      // c2h | h2c | hostclose ; then End
	End     string   `json:"end"`      // close | drop | ooo
	StartMs int      `json:"start_ms"`
	Stall    bool    `json:"client_stops_reading_until_the_others_are_done,omitempty"` // websocket: its host floods it meanwhile; the other tunnels must not notice
	SlowPair bool    `json:"slow_pairing,omitempty"` // legacy: RDG_IN_DATA follows RDG_OUT_DATA only after another tunnel has ended (or 150 ms)
}

type c07Case struct {
	TokenAuth bool        `json:"token_auth"`
	Gen1      int         `json:"first_generation"` // tunnels whose host greets and hangs up, run before the concurrent ones
	Tunnels   []c07Tunnel `json:"tunnels"`
	Rogue     bool        `json:"rogue_in"` // pairing probe: OUT(id-a) is open, an IN with a similar but different id arrives
	Buffers   bool        `json:"socket_buffer_sizes_configured,omitempty"` // server.sendbuf / server.receivebuf are set: the gateway touches the descriptor of every client connection
	SharedSub bool        `json:"shared_token_subject,omitempty"` // token auth: every cookie carries the same subject (rendered user name) although the accounts behind the access tokens differ
}

func genC07(t *rapid.T, maxTunnels int) c07Case {
	c := c07Case{TokenAuth: rapid.Bool().Draw(t, "tokenAuth"), Gen1: rapid.SampledFrom([]int{0, 0, 2, 6}).Draw(t, "gen1"), Rogue: rapid.IntRange(0, 2).Draw(t, "rogue") == 0}
	c.SharedSub = c.TokenAuth && rapid.IntRange(0, 2).Draw(t, "sharedSub") == 0
	c.Buffers = rapid.IntRange(0, 2).Draw(t, "buffers") == 0
	n := rapid.IntRange(1, maxTunnels).Draw(t, "tunnels")
	for i := 0; i < n; i++ {
		tn := c07Tunnel{Kind: genKind(t), User: strconv.Itoa(rapid.IntRange(1, 9).Draw(t, "user")),
			IDStyle: rapid.SampledFrom([]string{"guid", "guid", "free", "none"}).Draw(t, "idStyle"),
			Setup:   rapid.SampledFrom([]string{"ok", "ok", "ok", "ok", "other-users-host", "bad-cookie", "unreachable-host"}).Draw(t, "setup"),
			End:     rapid.SampledFrom([]string{"close", "drop", "ooo"}).Draw(t, "end"), StartMs: rapid.IntRange(0, 3).Draw(t, "start")}
		if tn.Kind == "legacy" && tn.IDStyle == "none" {
			tn.IDStyle = "free" // a legacy pair needs an identifier
		}
		tn.SlowPair = tn.Kind == "legacy" && rapid.IntRange(0, 2).Draw(t, "slowPair") == 0
		for j, m := 0, rapid.IntRange(0, 6).Draw(t, "nops"); j < m; j++ {
			tn.Ops = append(tn.Ops, rapid.SampledFrom([]string{"c2h", "c2h", "h2c", "h2c", "h2c-big", "hostclose"}).Draw(t, "op"))
		}
		c.Tunnels = append(c.Tunnels, tn)
	}
	if n >= 2 && rapid.IntRange(0, 3).Draw(t, "stall") == 0 {
		for i := range c.Tunnels {
			if c.Tunnels[i].Kind == "ws" && c.Tunnels[i].Setup == "ok" {
				c.Tunnels[i].Stall = true
				break
			}
		}
	}
	return c
}

func c07Block(i int, dir string, off, n int) []byte {
	var b bytes.Buffer
	for b.Len() < n {
		fmt.Fprintf(&b, "T%03d%s%09d|", i, dir, off+b.Len())
	}
	return b.Bytes()[:n]
}

var c07Stalled chan struct{} // closed once the stalling tunnel of the running case is stalled (or at once if there is none)

var c07OthersDone chan struct{} // closed when every tunnel of the running case that reads its data has finished

var c07Ended atomic.Int64 // tunnels (of this process) that have run to their end

var freeIDCtr int
var freeIDMu sync.Mutex

func c07ConnID(style string, i int) string {
	switch style {
	case "guid":
		return sess.NewConnID()
	case "none":
		return ""
	}
	freeIDMu.Lock()
	freeIDCtr++
	n := freeIDCtr
	freeIDMu.Unlock()
	return fmt.Sprintf("workstation-%d/session-%d", i, n)
}

type c07Result struct {
	err string
}

// runC07Tunnel runs one tunnel's script and checks it against its own expectation only.
func runC07Tunnel(i int, tn c07Tunnel, c c07Case, o gwOpts, mkTarget func(user string) gwc.Target, P int, g *hostGrid, from []int) string {
	w := W()
	tgt := mkTarget(tn.User)
	defer c07Ended.Add(1)
	var conn gwc.Conn
	var err error
	if tn.SlowPair && tn.Kind == "legacy" {
		id := c07ConnID(tn.IDStyle, i)
		var l *gwc.Legacy
		if l, err = gwc.OpenOut(tgt, id); err == nil {
			// between the two requests of the pair other tunnels come and go
			before := c07Ended.Load()
			for dl := time.Now().Add(150 * time.Millisecond); c07Ended.Load() == before && time.Now().Before(dl); {
				time.Sleep(200 * time.Microsecond)
			}
			time.Sleep(2 * time.Millisecond) // let that tunnel's tear-down run
			if err = l.OpenIn(tgt, id); err != nil {
				l.Close()
			}
			conn = l
		}
	} else {
		conn, err = gwc.Dial(tn.Kind, tgt, c07ConnID(tn.IDStyle, i))
	}
	if err != nil {
		return fmt.Sprintf("tunnel %d: transport did not open: %v", i, err)
	}
	defer conn.Close()
	ownHost := "127.0.0." + tn.User
	reqHost := ownHost
	tokenHost := net.JoinHostPort(ownHost, strconv.Itoa(P))
	if tn.Setup == "other-users-host" {
		other := (atoi(tn.User) % 9) + 1
		reqHost = "127.0.0." + strconv.Itoa(other)
	}
	reqPort := P
	if tn.Setup == "unreachable-host" {
		// allowed by the policy, but the connection is refused: the tunnel gets an error, the others must not notice
		reqPort = c07DeadPort()
		tokenHost = net.JoinHostPort(ownHost, strconv.Itoa(reqPort))
	}
	units := [][]byte{tsgu.Handshake(1, byte(i), 0, o.serverCaps())}
	if o.TokenAuth {
		at := w.IdP.NewAccessToken("ok:" + tn.User)
		key := w.Key
		if tn.Setup == "bad-cookie" {
			key = []byte("another-signing-key-of-32-chars!")
		}
		subject := tn.User
		if c.SharedSub {
			subject = "alice" // e.g. alice@corp-a and alice@corp-b with user/domain splitting: the identity is the account behind the access token
		}
		units = append(units, tsgu.TunnelCreate(jwx.MintHS256(cookieClaims(tokenHost, "127.0.0.1", at, subject, time.Now().Add(4*time.Minute)), key), true))
	} else {
		units = append(units, tsgu.TunnelCreate("", false))
	}
	units = append(units, tsgu.TunnelAuth("pc"), tsgu.ChannelCreate(reqHost, uint16(reqPort)))
	for _, u := range units {
		conn.Send(u)
	}
	expectOK := tn.Setup == "ok" || (tn.Setup == "bad-cookie" && !o.TokenAuth)
	tag := c07Block(i, ">", 0, 64)
	wantResp := 4
	if o.TokenAuth && tn.Setup == "bad-cookie" {
		wantResp = 2
	}
	if !waitLong(func() bool { return countPackets(conn) >= wantResp }) {
		return fmt.Sprintf("tunnel %d (%s, user %s, setup %s): only %d of %d set-up responses", i, tn.Kind, tn.User, tn.Setup, countPackets(conn), wantResp)
	}
	var pk [][]byte
	if tn.Kind == "ws" {
		pk = conn.Units()
	} else {
		pk, _ = tsgu.SplitStream(conn.Stream())
	}
	resps, derr := sess.Decode(pk[:wantResp])
	if derr != nil {
		return fmt.Sprintf("tunnel %d: %v", i, derr)
	}
	if resps[0].Minor != byte(i) {
		return fmt.Sprintf("tunnel %d: handshake response echoes minor version %d: it answers another tunnel's request", i, resps[0].Minor)
	}
	last := resps[len(resps)-1]
	if !expectOK {
		if last.Status == 0 {
			return fmt.Sprintf("tunnel %d (user %s, setup %s): expected a refusal, got success %v", i, tn.User, tn.Setup, resps)
		}
		return "" // refused as predicted; that no connection carries its tag is checked globally
	}
	if last.Type != tsgu.PktChannelResponse || last.Status != 0 {
		return fmt.Sprintf("tunnel %d (user %s): a valid set-up was refused although other tunnels should not matter: %v", i, tn.User, resps)
	}
	conn.Send(tsgu.Data(tag))
	var host *backend.Conn
	deadline := time.Now().Add(30 * time.Second)
	for host == nil && time.Now().Before(deadline) {
		for li, l := range g.Ls {
			for _, hc := range l.Conns()[from[li]:] {
				if bytes.HasPrefix(hc.Received(), tag) {
					host = hc
				}
			}
		}
		time.Sleep(300 * time.Microsecond)
	}
	if host == nil {
		return fmt.Sprintf("tunnel %d: no backend connection received its first data", i)
	}
	defer host.Close()
	la := host.C.LocalAddr().(*net.TCPAddr)
	if la.IP.String() != ownHost || la.Port != P {
		return fmt.Sprintf("tunnel %d of user %s is connected to %s, its own host is %s:%d", i, tn.User, la, ownHost, P)
	}
	sentC := append([]byte(nil), tag...)
	var sentH []byte
	hostClosed := false
	if ws, ok := conn.(*gwc.WS); ok && tn.Stall {
		// this client stops reading; its host keeps writing until the gateway cannot take more; only when every other
		// tunnel of the case has run to its end does the client read again
		ws.Pause(true)
		for len(sentH) < 64<<20 {
			b := c07Block(i, "<", len(sentH), 32768)
			host.C.SetWriteDeadline(time.Now().Add(250 * time.Millisecond))
			n, err := host.C.Write(b)
			sentH = append(sentH, b[:n]...)
			if err != nil {
				break
			}
		}
		host.C.SetWriteDeadline(time.Time{})
		close(c07Stalled) // the other tunnels of the case start now
		select {
		case <-c07OthersDone:
		case <-time.After(75 * time.Second): // longer than the others wait for anything (30 s): a tunnel held up by this one fails first
		}
		ws.Pause(false)
		// let the backlog drain before the script goes on (a host that hangs up with megabytes still queued towards the
		// gateway, and unread bytes of its own, would reset the connection - a harness artefact, not the gateway's doing)
		pollDataPayload(conn, len(sentH), 60*time.Second) // (payload bytes: the framing makes the raw byte count reach that number a little earlier)
	}
	for _, op := range tn.Ops {
		switch op {
		case "c2h":
			b := c07Block(i, ">", len(sentC), 700)
			sentC = append(sentC, b...)
			conn.Send(tsgu.Data(b))
		case "h2c", "h2c-big":
			n := 900
			if op == "h2c-big" {
				n = 30000
			}
			if !hostClosed {
				b := c07Block(i, "<", len(sentH), n)
				if host.Write(b) == nil {
					sentH = append(sentH, b...)
				}
			}
		case "hostclose":
			host.Close()
			hostClosed = true
		}
	}
	// everything the host wrote must reach this client and nothing else may
	wait := 30 * time.Second
	if tn.Stall {
		wait = 60 * time.Second // megabytes are queued behind the stall
	}
	got, perr, _ := pollDataPayload(conn, len(sentH), wait)
	if perr != nil {
		return fmt.Sprintf("tunnel %d: malformed packet: %v", i, perr)
	}
	if !bytes.Equal(got, sentH) {
		return fmt.Sprintf("tunnel %d: client received %d payload bytes, its host wrote %d; first difference at %d: got %q want %q", i, len(got), len(sentH), firstDiff(got, sentH), around(got, firstDiff(got, sentH)), around(sentH, firstDiff(got, sentH)))
	}
	switch tn.End {
	case "close":
		conn.Send(tsgu.CloseChannel())
	case "ooo":
		conn.Send(tsgu.Handshake(0, 0, 0, o.serverCaps()))
	case "drop":
		if ws, ok := conn.(*gwc.WS); ok {
			ws.SyncPeer()
		} else {
			conn.(*gwc.Legacy).SyncPeer()
		}
		conn.Close()
	}
	if !hostClosed {
		if !host.WaitEOF(30 * time.Second) {
			return fmt.Sprintf("tunnel %d: backend connection still open 30 s after the tunnel ended (%s)", i, tn.End)
		}
		rx := host.Received()
		if !bytes.Equal(rx, sentC) {
			return fmt.Sprintf("tunnel %d: host received %d bytes, its client sent %d; first difference at %d: got %q want %q", i, len(rx), len(sentC), firstDiff(rx, sentC), around(rx, firstDiff(rx, sentC)), around(sentC, firstDiff(rx, sentC)))
		}
	}
	return ""
}

func around(b []byte, at int) string {
	lo, hi := at-8, at+24
	if lo < 0 {
		lo = 0
	}
	if hi > len(b) {
		hi = len(b)
	}
	if lo > hi {
		lo = hi
	}
	return string(b[lo:hi])
}

func atoi(s string) int { n, _ := strconv.Atoi(s); return n }

var (
	c07DeadOnce sync.Once
	c07Dead     int
)

// c07DeadPort: a port this process has bound on every IPv4 address without listening on it, for as long as it runs:
// connections to it are refused, and no other process (a gateway of another shard, say) can come to listen there.
func c07DeadPort() int {
	c07DeadOnce.Do(func() { c07Dead, _ = backend.Reserve("0.0.0.0") })
	return c07Dead
}

func c07Opts(c c07Case, P int) gwOpts {
	// the second entry is a port of the user's own address on which nothing listens
	o := gwOpts{TokenAuth: c.TokenAuth, HostSelection: "roundrobin", Hosts: []string{"127.0.0." + placeholder + ":" + strconv.Itoa(P), "127.0.0." + placeholder + ":" + strconv.Itoa(c07DeadPort())}, VerifyIP: true}
	if c.Buffers {
		o.SendBuf, o.ReceiveBuf = 262144, 262144
	}
	return o
}

func runC07(c c07Case, o gwOpts, mkTarget func(user string) gwc.Target) *Violation {
	g := theGrid()
	P := g.P
	from := g.marks()
	defer g.newAccepts(from, 0)
	// first generation: tunnels whose host greets and hangs up (sequentially)
	for k := 0; k < c.Gen1; k++ {
		tn := c07Tunnel{Kind: []string{"ws", "legacy"}[k%2], User: strconv.Itoa(k%9 + 1), IDStyle: "guid", Setup: "ok", Ops: []string{"h2c", "hostclose"}, End: "drop"}
		if e := runC07Tunnel(900+k, tn, c, o, mkTarget, P, g, from); e != "" {
			return viol("c07/first-generation", "%s", e)
		}
	}
	var wg sync.WaitGroup
	errs := make([]string, len(c.Tunnels))
	start := make(chan struct{})
	c07OthersDone = make(chan struct{})
	c07Stalled = make(chan struct{})
	var others atomic.Int64
	hasStall := false
	for _, tn := range c.Tunnels {
		if !tn.Stall {
			others.Add(1)
		} else {
			hasStall = true
		}
	}
	if !hasStall {
		close(c07Stalled)
	}
	if others.Load() == 0 {
		close(c07OthersDone)
	}
	for i, tn := range c.Tunnels {
		wg.Add(1)
		go func(i int, tn c07Tunnel) {
			defer wg.Done()
			<-start
			if !tn.Stall {
				select { // with a stalling tunnel in the case, the others run while it is stalled
				case <-c07Stalled:
				case <-time.After(20 * time.Second):
				}
			}
			time.Sleep(time.Duration(tn.StartMs) * time.Millisecond)
			errs[i] = runC07Tunnel(i, tn, c, o, mkTarget, P, g, from)
			if !tn.Stall && others.Add(-1) == 0 {
				close(c07OthersDone)
			}
		}(i, tn)
	}
	var rogueErr string
	if c.Rogue {
		wg.Add(1)
		go func() {
			defer wg.Done()
			<-start
			rogueErr = roguePairing(mkTarget("1"), o)
			if rogueErr == "" && !o.TokenAuth {
				rogueErr = roguePairingUsers(mkTarget, o)
			}
		}()
	}
	close(start)
	wg.Wait()
	for _, e := range errs {
		if e != "" {
			return viol("c07/tunnel", "%s", e)
		}
	}
	if rogueErr != "" {
		return viol("c07/pairing", "%s", rogueErr)
	}
	// globally: refused tunnels have no backend connection
	want := 0
	for _, tn := range c.Tunnels {
		if tn.Setup == "ok" || (tn.Setup == "bad-cookie" && !o.TokenAuth) {
			want++
		}
	}
	got := 0
	for li, l := range g.Ls {
		got += len(l.Conns()[from[li]:])
	}
	if got != want+c.Gen1 {
		return viol("c07/connection-count", "%d backend connections for %d tunnels that were allowed to have one", got, want+c.Gen1)
	}
	return nil
}

// roguePairing: OUT with identifier a is open; an IN with a similar but different identifier must not be paired
// with it: nothing sent on that IN may be answered on a's OUT.
func roguePairing(tgt gwc.Target, o gwOpts) string {
	freeIDMu.Lock()
	freeIDCtr++
	n := freeIDCtr
	freeIDMu.Unlock()
	a, b := fmt.Sprintf("reception-pc/%d-a", n), fmt.Sprintf("reception-pc/%d-b", n)
	out, err := gwc.OpenOut(tgt, a)
	if err != nil {
		return "rogue probe: OUT did not open: " + err.Error()
	}
	defer out.Close()
	in, err := gwc.OpenInOnly(tgt, b)
	if in != nil {
		defer in.Close()
	}
	if err == nil {
		in.Send(tsgu.Handshake(9, 9, 0, o.serverCaps()))
		in.WaitInClosed(2 * time.Second)
	}
	out.Settle()
	if s := out.Stream(); len(s) > 0 {
		return fmt.Sprintf("a packet sent on RDG_IN_DATA with identifier %q was answered on the RDG_OUT_DATA connection of identifier %q (%d bytes)", b, a, len(s))
	}
	return ""
}

func classifyC07(c c07Case) (bool, []string) {
	fails := 0
	for _, t := range c.Tunnels {
		if t.Setup != "ok" || t.End != "close" {
			fails++
		}
	}
	cl := []string{fmt.Sprintf("tunnels=%d", len(c.Tunnels)), fmt.Sprintf("gen1=%d", c.Gen1)}
	if c.Rogue {
		cl = append(cl, "rogue-pairing-probe")
	}
	return len(c.Tunnels) >= 2 && fails >= 1, cl
}

func TestC07_INP(t *testing.T) {
	max := 16
	if strings.Contains(strings.ToLower(getenv("VERIF_TIER")), "thorough") {
		max = 64
	}
	runProp(t, "C07_INP", func(t *rapid.T) c07Case { return genC07(t, max) }, classifyC07, func(c c07Case) *Violation {
		o := c07Opts(c, theGrid().P)
		return withGateway(mkGateway(o), func() *Violation {
			return runC07(c, o, func(user string) gwc.Target { return inpTarget(userHeader(o, user)...) })
		})
	})
}

func TestC07_BIN(t *testing.T) {
	runProp(t, "C07_BIN", func(t *rapid.T) c07Case { return genC07(t, 16) }, classifyC07, func(c c07Case) *Violation {
		o := c07Opts(c, theGrid().P)
		in, _, err := binFor(o, "1")
		if err != nil {
			return viol("bin/start", "%v", err)
		}
		if v := runC07(c, o, func(user string) gwc.Target { _, t, _ := binFor(o, user); return t }); v != nil {
			return v
		}
		return binHealth(in)
	})
}

// C07_RACE: the same concurrent tunnels against the race-detector build. Two tunnels that touch the same memory
// without synchronisation share state; the detector reports the pair even when this run's interleaving happened to
// be harmless.
func TestC07_RACE(t *testing.T) {
	binUseRace = true
	defer func() { binUseRace = false }()
	runProp(t, "C07_RACE", func(t *rapid.T) c07Case {
		c := genC07(t, 12)
		for i := range c.Tunnels {
			c.Tunnels[i].StartMs = 0 // set-ups collide as closely as the harness can make them
		}
		return c
	}, classifyC07, func(c c07Case) *Violation {
		o := c07Opts(c, theGrid().P)
		in, _, err := binFor(o, "1")
		if err != nil {
			return viol("bin/start", "%v", err)
		}
		v := runC07(c, o, func(user string) gwc.Target { _, t, _ := binFor(o, user); return t })
		time.Sleep(20 * time.Millisecond)
		if f := in.Faults(); f != "" {
			dropBin(in)
			if strings.Contains(f, "DATA RACE") {
				return viol("c07/shared-state/"+raceSite(f), "tunnels share unsynchronised state:\n%s", f)
			}
			return viol("c07/fault/"+panicSite(f), "the race-built gateway reported:\n%s", f)
		}
		return v
	})
}

// roguePairingUsers: two users and two identifiers chosen so that user name and identifier run together into the same
// text ("1"+"1z7" and "11"+"z7"): different user, different identifier - the IN of the one must not be paired with the
// OUT of the other.
func roguePairingUsers(mkTarget func(user string) gwc.Target, o gwOpts) string {
	freeIDMu.Lock()
	freeIDCtr++
	n := freeIDCtr
	freeIDMu.Unlock()
	victimID, rogueID := fmt.Sprintf("1z%d", n), fmt.Sprintf("z%d", n)
	out, err := gwc.OpenOut(mkTarget("1"), victimID)
	if err != nil {
		return "rogue probe: OUT did not open: " + err.Error()
	}
	defer out.Close()
	in, err := gwc.OpenInOnly(mkTarget("11"), rogueID)
	if in != nil {
		defer in.Close()
	}
	if err == nil {
		in.Send(tsgu.Handshake(9, 9, 0, o.serverCaps()))
		in.WaitInClosed(2 * time.Second)
	}
	out.Settle()
	if s := out.Stream(); len(s) > 0 {
		return fmt.Sprintf("a packet sent by user 11 on RDG_IN_DATA with identifier %q was answered on user 1's RDG_OUT_DATA connection of identifier %q (%d bytes)", rogueID, victimID, len(s))
	}
	return ""
}
