package props

import (
	"fmt"
	"strings"
	"testing"

	"pgregory.net/rapid"

	"verif/harness/lab/model"
)

// C01 — no backend connection or relay before the full authorization sequence.

type c01Case struct {
	Opts gwOpts    `json:"gateway"`
	Kind string    `json:"transport"`
	Hist []PktSpec `json:"history"`
	Via  string    `json:"variant,omitempty"` // second-in-early: see runHistoryVia
}

func genC01Opts(t *rapid.T) gwOpts {
	return gwOpts{
		TokenAuth:     rapid.Bool().Draw(t, "tokenAuth"),
		SmartCard:     rapid.IntRange(0, 3).Draw(t, "smartCard") == 0,
		HostSelection: "roundrobin",
		Hosts:         []string{"$A", "$B", "$C"},
		VerifyIP:      true,
	}
}

// resolveHosts replaces $A.. placeholders by the run-time addresses of the world's listeners.
func resolveHosts(o gwOpts) gwOpts {
	w := W()
	var hs []string
	for _, h := range o.Hosts {
		if strings.HasPrefix(h, "$") {
			h = strings.Replace(h, h[:2], w.addr(h[1:2]), 1)
		}
		hs = append(hs, h)
	}
	o.Hosts = hs
	return o
}

func genC01(t *rapid.T) c01Case {
	o := genC01Opts(t)
	o.ClientNames = rapid.Bool().Draw(t, "clientNamePolicy") // the real binary wires no such policy: in-process only
	c := c01Case{Opts: o, Kind: genKind(t), Hist: genHistory(t, o)}
	if c.Kind == "legacy" && rapid.IntRange(0, 7).Draw(t, "secondIn") == 0 {
		c.Via = "second-in-early"
	} else if c.Kind == "legacy" && rapid.IntRange(0, 5).Draw(t, "inAgain") == 0 {
		c.Via = "in-again-after-end"
	}
	return c
}

func classifyHist(kind string, o gwOpts, hist []PktSpec) (bool, []string) {
	// non-trivial: reaches an open channel, or has a refused/out-of-order step after a successful one
	order := []string{"hs", "tc", "ta", "cc"}
	ph, succ, nt := 0, 0, false
	maxPh := 0
	for _, p := range hist[:len(hist)-2] {
		if ph < 4 && p.K == order[ph] && p.Mal == "" {
			ph++
			succ++
		} else if ph >= 4 && (p.K == "data" || p.K == "ka") {
		} else if p.K != "unk" && succ > 0 {
			nt = true
		}
		if ph > maxPh {
			maxPh = ph
		}
	}
	if maxPh >= 4 {
		nt = true
	}
	cl := []string{"kind=" + kind, "maxphase=" + string(rune('0'+maxPh))}
	if o.TokenAuth {
		cl = append(cl, "tokenauth")
	}
	for _, p := range hist {
		if p.Mal != "" {
			cl = append(cl, "has-malformed")
			break
		}
	}
	return nt, cl
}

func runC01(c c01Case) *Violation {
	o := resolveHosts(c.Opts)
	return withGateway(mkGateway(o), func() *Violation {
		units, evs := render(histCfg{Opts: o, Kind: c.Kind}, c.Hist, "127.0.0.1")
		obs, _, v := runHistoryVia(c.Kind, inpTarget(userHeader(o, W().User)...), units, c.Via)
		if v != nil {
			return v
		}
		if f := model.CheckTunnel(model.Cfg{ServerCaps: o.serverCaps(), TokenAuth: o.TokenAuth}, evs, obs); f != nil {
			if c.Via != "" {
				f.Sig += "/" + c.Via
			}
			return viol(f.Sig, "%s\n history: %s\n responses: %v\n accepts: %v", f.Msg, historyString(c.Hist), obs.Resps, obs.Accepts)
		}
		return nil
	})
}

func TestC01_INP(t *testing.T) {
	runProp(t, "C01_INP", genC01,
		func(c c01Case) (bool, []string) { return classifyHist(c.Kind, c.Opts, c.Hist) },
		runC01)
}

// ---- BIN: the same histories against the real binary (main.go wiring) ----

type c01Bin struct {
	Opts  gwOpts      `json:"gateway"`
	Batch []c01Sub    `json:"batch"`
}
type c01Sub struct {
	Kind string    `json:"transport"`
	Hist []PktSpec `json:"history"`
}

func genC01Bin(t *rapid.T) c01Bin {
	o := genC01Opts(t)
	c := c01Bin{Opts: o}
	n := rapid.IntRange(1, 12).Draw(t, "batch")
	for i := 0; i < n; i++ {
		c.Batch = append(c.Batch, c01Sub{Kind: genKind(t), Hist: genHistory(t, o)})
	}
	return c
}

func runC01Bin(c c01Bin) *Violation {
	o := resolveHosts(c.Opts)
	in, tgt, err := binFor(o, W().User)
	if err != nil {
		return viol("bin/start", "%v", err)
	}
	for i, s := range c.Batch {
		units, evs := render(histCfg{Opts: o, Kind: s.Kind}, s.Hist, "127.0.0.1")
		obs, _, v := runHistory(s.Kind, tgt, units)
		if v == nil {
			if f := model.CheckTunnel(model.Cfg{ServerCaps: o.serverCaps(), TokenAuth: o.TokenAuth}, evs, obs); f != nil {
				v = viol(f.Sig, "%s\n history: %s\n responses: %v\n accepts: %v", f.Msg, historyString(s.Hist), obs.Resps, obs.Accepts)
			}
		}
		if hv := binHealthQuick(in); hv != nil {
			return hv
		}
		if v != nil {
			v.Msg = fmt.Sprintf("sub-case %d: %s", i, v.Msg)
			return v
		}
	}
	return binHealth(in)
}

func TestC01_BIN(t *testing.T) {
	runProp(t, "C01_BIN", genC01Bin,
		func(c c01Bin) (bool, []string) {
			nt := false
			var cl []string
			for _, s := range c.Batch {
				n, k := classifyHist(s.Kind, c.Opts, s.Hist)
				nt = nt || n
				cl = append(cl, k...)
			}
			return nt, cl
		}, runC01Bin)
}
