package props

import (
	"strings"
	"testing"

	"pgregory.net/rapid"

	"verif/harness/lab/model"
)

// C01 — no backend connection or relay before the full authorization sequence.

type c01Case struct {
	Opts gwOpts    `json:"gateway"`
	Kind string    `json:"transport"`
	Hist []PktSpec `json:"history"`
}

func genC01Opts(t *rapid.T) gwOpts {
	return gwOpts{
		TokenAuth:     rapid.Bool().Draw(t, "tokenAuth"),
		SmartCard:     rapid.IntRange(0, 3).Draw(t, "smartCard") == 0,
		HostSelection: "roundrobin",
		Hosts:         []string{"$A", "$B", "$C"},
		VerifyIP:      true,
	}
}

// resolveHosts replaces $A.. placeholders by the run-time addresses of the world's listeners.
func resolveHosts(o gwOpts) gwOpts {
	w := W()
	var hs []string
	for _, h := range o.Hosts {
		if strings.HasPrefix(h, "$") {
			h = strings.Replace(h, h[:2], w.addr(h[1:2]), 1)
		}
		hs = append(hs, h)
	}
	o.Hosts = hs
	return o
}

func genC01(t *rapid.T) c01Case {
	o := genC01Opts(t)
	return c01Case{Opts: o, Kind: genKind(t), Hist: genHistory(t, o)}
}

func classifyHist(kind string, o gwOpts, hist []PktSpec) (bool, []string) {
	// non-trivial: reaches an open channel, or has a refused/out-of-order step after a successful one
	order := []string{"hs", "tc", "ta", "cc"}
	ph, succ, nt := 0, 0, false
	maxPh := 0
	for _, p := range hist[:len(hist)-2] {
		if ph < 4 && p.K == order[ph] && p.Mal == "" {
			ph++
			succ++
		} else if ph >= 4 && (p.K == "data" || p.K == "ka") {
		} else if p.K != "unk" && succ > 0 {
			nt = true
		}
		if ph > maxPh {
			maxPh = ph
		}
	}
	if maxPh >= 4 {
		nt = true
	}
	cl := []string{"kind=" + kind, "maxphase=" + string(rune('0'+maxPh))}
	if o.TokenAuth {
		cl = append(cl, "tokenauth")
	}
	for _, p := range hist {
		if p.Mal != "" {
			cl = append(cl, "has-malformed")
			break
		}
	}
	return nt, cl
}

func runC01(c c01Case) *Violation {
	o := resolveHosts(c.Opts)
	return withGateway(mkGateway(o), func() *Violation {
		units, evs := render(histCfg{Opts: o, Kind: c.Kind}, c.Hist, "127.0.0.1")
		obs, _, v := runHistory(c.Kind, inpTarget(userHeader(o, W().User)...), units)
		if v != nil {
			return v
		}
		if f := model.CheckTunnel(model.Cfg{ServerCaps: o.serverCaps(), TokenAuth: o.TokenAuth}, evs, obs); f != nil {
			return viol(f.Sig, "%s\n history: %s\n responses: %v\n accepts: %v", f.Msg, historyString(c.Hist), obs.Resps, obs.Accepts)
		}
		return nil
	})
}

func TestC01_INP(t *testing.T) {
	runProp(t, "C01_INP", genC01,
		func(c c01Case) (bool, []string) { return classifyHist(c.Kind, c.Opts, c.Hist) },
		runC01)
}
