package props

import (
	"time"
	"encoding/json"
	"fmt"
	"net/http"
	"sync"

	"verif/harness/lab/authsvc"
	"verif/harness/lab/gwc"
	"verif/harness/lab/gwproc"
)

// BIN layer: the real binary, one instance per distinct configuration, reused within a test process.

var (
	binMu    sync.Mutex
	binPool  = map[string]*gwproc.Inst{}
	authOnce sync.Once
	authSvc  *authsvc.Service
)

func theAuth() *authsvc.Service {
	authOnce.Do(func() {
		s, err := authsvc.Start(gwproc.WorkDir(), map[string]string{"alice": "wonderland", "bob": "builder", "1": "pw1", "2": "pw2", "3": "pw3"})
		if err != nil {
			panic(err)
		}
		authSvc = s
	})
	return authSvc
}

const (
	testQueryKey = "querytokensigningkey-32-chars-ok"
	key32a = "0123456789abcdef0123456789abcdef"
	key32b = "fedcba9876543210fedcba9876543210"
)

// binConfig translates gwOpts into the configuration file of the binary (documented key spelling).
func binConfig(o gwOpts) gwproc.Config {
	w := W()
	c := gwproc.Config{}
	if o.TLS {
		c18Files()
		c.Set("Server", "CertFile", c18Cert).Set("Server", "KeyFile", c18Key)
	} else {
		c.Set("Server", "Tls", "disable")
	}
	c.Set("Server", "GatewayAddress", "gw.example.test").
		Set("Server", "Hosts", o.Hosts).Set("Server", "HostSelection", o.HostSelection).
		Set("Server", "SessionKey", key32a).Set("Server", "SessionEncryptionKey", key32b)
	if o.SendBuf > 0 {
		c.Set("Server", "SendBuf", o.SendBuf)
	}
	if o.ReceiveBuf > 0 {
		c.Set("Server", "ReceiveBuf", o.ReceiveBuf)
	}
	if o.TokenAuth {
		c.Set("Server", "Authentication", []string{"openid"})
		c.Set("OpenId", "ProviderUrl", w.IdP.URL).Set("OpenId", "ClientId", w.IdP.ClientID).Set("OpenId", "ClientSecret", w.IdP.ClientSecret)
	} else {
		c.Set("Server", "Authentication", []string{"ntlm"}).Set("Server", "AuthSocket", theAuth().Socket)
	}
	c.Set("Caps", "TokenAuth", o.TokenAuth).Set("Caps", "SmartCardAuth", o.SmartCard).Set("Caps", "IdleTimeout", o.IdleTimeout).
		Set("Caps", "EnableClipboard", o.Redirect.Clipboard).Set("Caps", "EnableDrive", o.Redirect.Drive).
		Set("Caps", "EnablePrinter", o.Redirect.Printer).Set("Caps", "EnablePort", o.Redirect.Port).Set("Caps", "EnablePnp", o.Redirect.Pnp).
		Set("Caps", "DisableRedirect", o.Redirect.DisableAll).Set("Caps", "RedirectAll", o.Redirect.EnableAll)
	c.Set("Security", "QueryTokenSigningKey", testQueryKey).Set("Security", "QueryTokenIssuer", "portal")
	c.Set("Security", "PAATokenSigningKey", testSigningKey).Set("Security", "VerifyClientIp", o.VerifyIP)
	return c
}

// binFor returns a running instance for the (resolved) options and the target to reach it as user.
// binUseRace makes binFor start the race-detector build of the gateway (units that look for state shared between tunnels).
var binUseRace bool

func binFor(o gwOpts, user string) (*gwproc.Inst, gwc.Target, error) {
	kb, _ := json.Marshal(o)
	key := string(kb)
	so := gwproc.StartOpts{}
	if binUseRace {
		key = "race/" + key
		so = gwproc.StartOpts{Bin: gwproc.BinRace(), Wait: 30 * time.Second}
	}
	binMu.Lock()
	defer binMu.Unlock()
	in := binPool[key]
	if in != nil {
		if ex, _ := in.Exited(); ex {
			delete(binPool, key)
			in = nil
		}
	}
	if in == nil {
		var err error
		in, err = gwproc.Start(binConfig(o), so)
		if err != nil {
			return nil, gwc.Target{}, err
		}
		if ex, code := in.Exited(); ex {
			return nil, gwc.Target{}, fmt.Errorf("gateway exited at start-up with code %d: %s", code, tail(in.Stderr(), 600))
		}
		if len(binPool) > 24 { // bound the number of live processes
			for k, old := range binPool {
				old.Stop()
				old.Remove()
				delete(binPool, k)
				break
			}
		}
		binPool[key] = in
	}
	t := gwc.Target{Addr: in.Addr, TLS: in.TLS}
	if !o.TokenAuth {
		t.Headers = [][2]string{{"Authorization", "NTLM " + authsvc.B64("ok:"+user)}}
	}
	return in, t, nil
}

func dropBin(in *gwproc.Inst) {
	binMu.Lock()
	defer binMu.Unlock()
	for k, v := range binPool {
		if v == in {
			delete(binPool, k)
		}
	}
	in.Stop()
}

func tail(s string, n int) string {
	if len(s) > n {
		return "…" + s[len(s)-n:]
	}
	return s
}

// binHealth: no runtime fault on stderr, process alive, /metrics answers.
func binHealth(in *gwproc.Inst) *Violation {
	if f := in.Faults(); f != "" {
		dropBin(in)
		return viol("bin/fault/"+panicSite(f), "runtime fault on the gateway's stderr:\n%s", f)
	}
	if ex, code := in.Exited(); ex {
		dropBin(in)
		return viol("bin/exited", "the gateway process exited with code %d: %s", code, tail(in.Stderr(), 800))
	}
	resp, err := gwproc.Client(nil).Get(in.URL("/metrics"))
	if err != nil {
		return viol("bin/not-serving", "GET /metrics failed: %v", err)
	}
	resp.Body.Close()
	if resp.StatusCode != http.StatusOK {
		return viol("bin/not-serving", "GET /metrics: status %d", resp.StatusCode)
	}
	return nil
}

// binHealthQuick only scans stderr and the process state (no HTTP request).
func binHealthQuick(in *gwproc.Inst) *Violation {
	if ex, code := in.Exited(); ex {
		dropBin(in)
		return viol("bin/exited", "the gateway process exited with code %d: %s", code, tail(in.Stderr(), 800))
	}
	return nil
}
