package props

import (
	"sync"
	"context"
	"encoding/json"
	"fmt"
	"net/http/httptest"
	"net/url"
	"strings"
	"testing"
	"time"

	"github.com/bolkedebruin/rdpgw/cmd/rdpgw/security"
	"github.com/bolkedebruin/rdpgw/cmd/rdpgw/web"
	"pgregory.net/rapid"

	"verif/harness/lab/idp"
	"verif/harness/lab/jwx"
)

// C15 — user tokens verify only if minted under the configured keys and unexpired.

type c15Tok struct {
	Kind  string `json:"kind"`
	Seg   int    `json:"seg,omitempty"`
	Pos   int    `json:"pos,omitempty"`
	Val   int    `json:"val,omitempty"`
	ExpIn int    `json:"exp_in_s,omitempty"`
	Str   string `json:"str,omitempty"`
}

type c15Req struct {
	Tok    c15Tok `json:"token"`
	Method string `json:"method"`
	Param  string `json:"param"` // one | absent | empty | repeated
}

type c15Case struct {
	Signed bool     `json:"sign_and_encrypt"`
	User   string   `json:"user"`
	VerifyOnly bool `json:"gateway_does_not_issue_user_tokens,omitempty"` // real binary: EnableUserToken false, keys configured: /tokeninfo still verifies under exactly these keys
	LongKey bool    `json:"long_signing_key,omitempty"` // sign-and-encrypt mode with a 64-character signing key (long enough for HS384/HS512, which must still be refused)
	ShortKey int    `json:"short_signing_key_length,omitempty"` // function level: a signing key of that many characters is configured (too short for HS256): nothing can be minted, and nothing - an unsigned token least of all - may be accepted
	Reqs   []c15Req `json:"requests"`
}

const (
	c15EncKey   = "user-token-encryption-key-32-ch!"
	c15SignKey  = "user-token-signing-key-32-chars!"
	c15OtherKey = "some-other-key-of-32-characters!"
)

// c15CurSignKey is the signing key of the case being run (32 characters, or 64 with long_signing_key).
var c15CurSignKey = c15SignKey

var c15Kinds = []string{"sig-hs384", "sig-hs512", "minted", "minted", "built", "subst", "subst", "bitflip", "trunc", "drop-seg", "enckey-seg-filled", "noncanonical", "other-enc-key", "other-sign-key",
	"enc-a256", "alg-other", "no-zip", "iss-other", "iss-absent", "exp", "exp-absent", "other-mode", "plain-jws", "garbage", "empty-string"}

func genC15(t *rapid.T) c15Case {
	c := c15Case{Signed: rapid.Bool().Draw(t, "signed")}
	c.LongKey = c.Signed && rapid.IntRange(0, 2).Draw(t, "longKey") == 0
	if c.Signed && !c.LongKey && rapid.IntRange(0, 5).Draw(t, "shortKey") == 0 {
		c.ShortKey = rapid.SampledFrom([]int{6, 16, 31}).Draw(t, "shortKeyLen")
	}
	c.VerifyOnly = rapid.IntRange(0, 3).Draw(t, "verifyOnly") == 0
	c.User = rapid.SampledFrom([]string{"alice.liddell", "bob@example.com", "Ünïcødé-üser-名前", "user with spaces", strings.Repeat("long-user-", 12), "x", "victim.user@example.org",
		strings.Repeat("very-long-user-name.", 10), strings.Repeat("u", 256) + "@example.org", strings.Repeat("dc=example,", 29) + "cn=u",
		variedName(200), variedName(320), variedName(600)}).Draw(t, "user")
	for i, n := 0, rapid.IntRange(1, 4).Draw(t, "nreq"); i < n; i++ {
		r := c15Req{Method: "GET", Param: "one"}
		if rapid.IntRange(0, 7).Draw(t, "oddReq") == 0 {
			r.Method = rapid.SampledFrom([]string{"POST", "HEAD", "PUT", "DELETE"}).Draw(t, "method")
		}
		if rapid.IntRange(0, 7).Draw(t, "oddParam") == 0 {
			r.Param = rapid.SampledFrom([]string{"absent", "empty", "repeated"}).Draw(t, "param")
		}
		k := c15Tok{Kind: rapid.SampledFrom(c15Kinds).Draw(t, "kind")}
		switch k.Kind {
		case "subst", "bitflip":
			k.Seg, k.Pos, k.Val = rapid.IntRange(0, 4).Draw(t, "seg"), rapid.IntRange(0, 500).Draw(t, "pos"), rapid.IntRange(0, 63).Draw(t, "val")
		case "trunc":
			k.Pos = rapid.IntRange(0, 500).Draw(t, "pos")
		case "drop-seg":
			k.Seg = rapid.IntRange(0, 4).Draw(t, "seg")
		case "exp":
			k.ExpIn = rapid.SampledFrom([]int{-3600, -121, -90, -75, -64, -56, -30, 0, 30}).Draw(t, "expIn")
		case "garbage":
			k.Str = rapid.StringN(0, 60, 90).Draw(t, "garbage")
		}
		r.Tok = k
		c.Reqs = append(c.Reqs, r)
	}
	return c
}

// c15Build renders a token. Harness-built tokens reuse the protected header of a minted one.
func c15Build(k c15Tok, c c15Case, now time.Time) (string, error) {
	minted, err := security.GenerateUserToken(context.Background(), c.User)
	if err != nil {
		return "", err
	}
	hdr, _ := jwx.B64Dec(strings.Split(minted, ".")[0])
	claims := map[string]any{"iss": "rdpgw", "sub": c.User, "exp": now.Add(4 * time.Minute).Unix()}
	build := func(signed bool, encKey, signKey string, header []byte, deflate bool) string {
		pl, _ := json.Marshal(claims)
		if signed {
			pl = []byte(jwx.SignCompact([]byte(`{"alg":"HS256"}`), pl, "HS256", []byte(signKey)))
		}
		tok, _ := jwx.EncryptDir(header, pl, []byte(encKey), deflate)
		return tok
	}
	std := func() string { return build(c.Signed, c15EncKey, c15CurSignKey, hdr, true) }
	switch k.Kind {
	case "minted":
		return minted, nil
	case "built":
		return std(), nil
	case "subst", "bitflip":
		segs := strings.Split(minted, ".")
		if segs[k.Seg] == "" {
			segs[k.Seg] = string(b64chars[k.Val])
			return strings.Join(segs, "."), nil
		}
		s := []byte(segs[k.Seg])
		p := k.Pos % len(s)
		if k.Kind == "subst" {
			s[p] = b64chars[k.Val]
		} else {
			i := strings.IndexByte(b64chars, s[p])
			s[p] = b64chars[i^(1<<uint(k.Val%6))]
		}
		segs[k.Seg] = string(s)
		return strings.Join(segs, "."), nil
	case "trunc":
		return minted[:k.Pos%len(minted)], nil
	case "drop-seg":
		segs := strings.Split(minted, ".")
		return strings.Join(append(segs[:k.Seg:k.Seg], segs[k.Seg+1:]...), "."), nil
	case "enckey-seg-filled":
		segs := strings.Split(minted, ".")
		segs[1] = jwx.B64([]byte("not-empty"))
		return strings.Join(segs, "."), nil
	case "noncanonical":
		segs := strings.Split(minted, ".")
		last := segs[4]
		i := strings.IndexByte(b64chars, last[len(last)-1])
		segs[4] = last[:len(last)-1] + string(b64chars[i|1]) // 16-byte tag -> 22 chars, last carries 2 bits
		return strings.Join(segs, "."), nil
	case "sig-hs384", "sig-hs512":
		// the nested signature uses another HMAC than the one the gateway signs with, under the configured key
		alg := map[string]string{"sig-hs384": "HS384", "sig-hs512": "HS512"}[k.Kind]
		pl, _ := json.Marshal(claims)
		inner := jwx.SignCompact([]byte(`{"alg":"`+alg+`"}`), pl, alg, []byte(c15CurSignKey))
		tok, _ := jwx.EncryptDir(hdr, []byte(inner), []byte(c15EncKey), true)
		return tok, nil
	case "other-enc-key":
		return build(c.Signed, c15OtherKey, c15CurSignKey, hdr, true), nil
	case "other-sign-key":
		return build(true, c15EncKey, c15OtherKey, hdr, true), nil
	case "enc-a256":
		h := []byte(strings.Replace(string(hdr), "A128CBC-HS256", "A256CBC-HS512", 1))
		return build(c.Signed, c15EncKey, c15CurSignKey, h, true), nil
	case "alg-other":
		h := []byte(strings.Replace(string(hdr), `"dir"`, `"A128KW"`, 1))
		return build(c.Signed, c15EncKey, c15CurSignKey, h, true), nil
	case "no-zip":
		var m map[string]any
		json.Unmarshal(hdr, &m)
		delete(m, "zip")
		h, _ := json.Marshal(m)
		return build(c.Signed, c15EncKey, c15CurSignKey, h, false), nil
	case "iss-other":
		claims["iss"] = "not-rdpgw"
		return std(), nil
	case "iss-absent":
		delete(claims, "iss")
		return std(), nil
	case "exp":
		claims["exp"] = now.Add(time.Duration(k.ExpIn) * time.Second).Unix()
		return std(), nil
	case "exp-absent":
		delete(claims, "exp")
		return std(), nil
	case "other-mode":
		return build(!c.Signed, c15EncKey, c15CurSignKey, hdr, true), nil
	case "plain-jws":
		pl, _ := json.Marshal(claims)
		return jwx.SignCompact([]byte(`{"alg":"HS256"}`), pl, "HS256", []byte(c15CurSignKey)), nil
	case "garbage":
		return k.Str, nil
	case "empty-string":
		return "", nil
	}
	return "", fmt.Errorf("kind %s", k.Kind)
}

// c15Verdict: reference decision by independent decryption.
func c15Verdict(tok string, signed bool, now time.Time) (verdict, reason, sub string) {
	info, err := jwx.DecryptDir(tok, []byte(c15EncKey))
	if err != nil {
		return mustReject, err.Error(), ""
	}
	verdict, reason = mustAccept, "ok"
	if !info.Canonical {
		verdict, reason = unspec, "non-canonical base64"
	}
	if info.EncKeySeg != "" {
		verdict, reason = unspec, "content in the unused encrypted-key segment"
	}
	if z, _ := info.Header["zip"].(string); z != "DEF" {
		verdict, reason = unspec, "header differs from the minted one"
	}
	pl := info.Plaintext
	var claims map[string]any
	isJWS := strings.Count(string(pl), ".") == 2 && !strings.HasPrefix(strings.TrimSpace(string(pl)), "{")
	if signed {
		if !isJWS {
			return mustReject, "not signed (token of the encrypt-only mode)", ""
		}
		ji, err := jwx.InspectJWS(string(pl), []byte(c15CurSignKey))
		if err != nil || !ji.MACOK {
			return mustReject, "inner signature", ""
		}
		claims = ji.Claims
	} else {
		if isJWS {
			return mustReject, "nested JWS (token of the sign-and-encrypt mode)", ""
		}
		if json.Unmarshal(pl, &claims) != nil || claims == nil {
			return mustReject, "claims not JSON", ""
		}
	}
	sub, _ = claims["sub"].(string)
	if iss, _ := claims["iss"].(string); iss != "rdpgw" {
		return mustReject, "iss", sub
	}
	switch e := claims["exp"].(type) {
	case nil:
		verdict, reason = unspec, "no exp"
	case float64:
		edge := float64(now.Unix()) - 60
		if e < edge-3 {
			return mustReject, "expired", sub
		}
		if e < edge+3 {
			verdict, reason = unspec, "exp at the leeway edge"
		}
	default:
		verdict, reason = unspec, "non-numeric exp"
	}
	return verdict, reason, sub
}

func runC15(c c15Case) *Violation {
	security.UserEncryptionKey = []byte(c15EncKey)
	c15CurSignKey = c15SignKey
	if c.LongKey {
		c15CurSignKey = c15SignKey + c15SignKey
	}
	if c.ShortKey > 0 {
		c15CurSignKey = c15SignKey[:c.ShortKey]
	}
	if c.Signed {
		security.UserSigningKey = []byte(c15CurSignKey)
	} else {
		security.UserSigningKey = nil
	}
	for i, r := range c.Reqs {
		now := time.Now()
		tok, err := c15Build(r.Tok, c, now)
		if err != nil {
			if c.ShortKey > 0 {
				continue // nothing can be signed with that key (by the gateway, or by the library the token family is built with)
			}
			return viol("c15/mint-error", "request %d: cannot mint: %v", i, err)
		}
		verdict, reason, sub := c15Verdict(tok, c.Signed, now)
		if c.ShortKey > 0 && verdict == mustAccept {
			// HMAC-SHA256 needs a key of at least 32 bytes: refusing what was signed with the short key is right, so is
			// accepting it; what the short key must never do is switch the signature requirement off (other verdicts stay)
			verdict, reason = unspec, "signing key too short for HS256"
		}
		// function level
		claims, uerr := security.UserInfo(context.Background(), tok)
		// endpoint level
		q := url.Values{}
		switch r.Param {
		case "one":
			q.Set("access_token", tok)
		case "empty":
			q.Set("access_token", "")
		case "repeated":
			q.Add("access_token", tok)
			q.Add("access_token", "second-value")
		}
		req := httptest.NewRequest(r.Method, "/tokeninfo?"+q.Encode(), nil)
		rr := httptest.NewRecorder()
		web.TokenInfo(rr, req)
		body := rr.Body.String()
		desc := fmt.Sprintf("request %d: mode signed=%v, token kind %s (%+v) -> reference %s (%s); UserInfo err=%v; %s /tokeninfo (param %s) -> %d %q; token=%q",
			i, c.Signed, r.Tok.Kind, r.Tok, verdict, reason, uerr, r.Method, r.Param, rr.Code, shorten(body), shorten(tok))
		if r.Method != "GET" {
			if rr.Code != 405 {
				return viol("c15/method-not-refused", "a non-GET request must be answered 405: %s", desc)
			}
			continue
		}
		if r.Param == "absent" || r.Param == "empty" || tok == "" {
			if rr.Code != 400 {
				return viol("c15/missing-param-status", "a missing or empty token parameter must be answered 400: %s", desc)
			}
			continue
		}
		if r.Tok.Kind == "minted" && verdict != mustAccept && c.ShortKey == 0 {
			return viol("c15/minted-not-valid", "the token the gateway minted for this user is not a valid token of the configured mode and keys by the reference (%s): %s", reason, desc)
		}
		leak := len([]rune(c.User)) >= 6 && (strings.Contains(body, c.User) || strings.Contains(body, jsonEscaped(c.User)))
		switch verdict {
		case mustReject:
			if uerr == nil {
				return viol("c15/accepted/"+r.Tok.Kind, "UserInfo accepted a token that must be refused: %s", desc)
			}
			if rr.Code != 403 {
				return viol("c15/status/"+r.Tok.Kind, "a refused token must be answered 403: %s", desc)
			}
			if leak || (sub != "" && len(sub) >= 6 && strings.Contains(body, sub)) {
				return viol("c15/claims-disclosed", "the 403 body discloses claims: %s", desc)
			}
		case mustAccept:
			if uerr != nil || rr.Code != 200 {
				return viol("c15/refused-valid/"+r.Tok.Kind, "a valid token was refused: %s", desc)
			}
			var out map[string]any
			if json.Unmarshal([]byte(body), &out) != nil || out["sub"] != c.User || claims.Subject != c.User {
				return viol("c15/wrong-subject", "token minted for %q yields subject %v / %q: %s", c.User, out["sub"], claims.Subject, desc)
			}
		default:
			if rr.Code == 200 {
				var out map[string]any
				if json.Unmarshal([]byte(body), &out) == nil && sub != "" && out["sub"] != sub {
					return viol("c15/wrong-subject", "subject %v returned for a token whose subject is %q: %s", out["sub"], sub, desc)
				}
			}
		}
		if r.Tok.Kind == "minted" && len([]rune(c.User)) >= 6 {
			if strings.Contains(tok, c.User) {
				return viol("c15/user-readable", "the user name occurs in the token text: %s", desc)
			}
			for _, seg := range strings.Split(tok, ".") {
				if b, err := jwx.B64Dec(seg); err == nil && strings.Contains(string(b), c.User) {
					return viol("c15/user-readable", "the user name can be read from a decoded token segment: %s", desc)
				}
			}
		}
	}
	return nil
}

func jsonEscaped(s string) string {
	b, _ := json.Marshal(s)
	return strings.Trim(string(b), `"`)
}

func TestC15_FN(t *testing.T) {
	runProp(t, "C15_FN", genC15, func(c c15Case) (bool, []string) {
		nt := false
		var cl []string
		for _, r := range c.Reqs {
			cl = append(cl, "kind="+r.Tok.Kind)
			if r.Tok.Kind != "garbage" && r.Tok.Kind != "empty-string" {
				nt = true
			}
		}
		cl = append(cl, fmt.Sprintf("signed=%v", c.Signed))
		return nt, cl
	}, runC15)
}

// ---- BIN: /tokeninfo of the real binary, keys wired through its configuration ----

func TestC15_BIN(t *testing.T) {
	runProp(t, "C15_BIN", genC15, func(c c15Case) (bool, []string) { return true, []string{fmt.Sprintf("signed=%v", c.Signed)} }, func(c c15Case) *Violation {
		w := W()
		wo := webOpts{Store: "cookie", HostSelection: "roundrobin", Hosts: []string{w.addr("A")}, VerifyIP: true, EnableUserToken: true, UserSigningKey: c.Signed, UsernameTemplate: "{{ username }}::{{ token }}"}
		if c.VerifyOnly {
			wo.EnableUserToken, wo.UsernameTemplate = false, ""
		}
		in, err := webInstance(wo)
		if err != nil {
			return viol("bin/start", "%v", err)
		}
		// the harness mints with the same keys the instance was configured with
		c15CurSignKey = c15SignKey // the instance is configured with the 32-character key
		security.UserEncryptionKey = []byte(c15EncKey)
		security.UserSigningKey = nil
		if c.Signed {
			security.UserSigningKey = []byte(c15SignKey)
		}
		// a token issued by the binary itself (or, when it issues none, by the harness under the same keys)
		issued := ""
		if c.VerifyOnly {
			var merr error
			if issued, merr = security.GenerateUserToken(context.Background(), c.User); merr != nil {
				return viol("c15/mint-error", "%v", merr)
			}
		} else {
			b := newBrowser()
			if lr, _, err := b.login(in, idp.CodeSpec{Sub: c.User, Username: c.User}); err != nil || lr.Code != 302 {
				return viol("c15/setup", "login failed: %v %d", err, lr.Code)
			}
			dr, err := b.get(in, "/connect")
			if err != nil || dr.Code != 200 {
				return viol("c15/setup", "download failed: %v %d %s", err, dr.Code, shorten(dr.Body))
			}
			m, _ := parseRDP(dr.Body)
			issued = strings.TrimPrefix(rdpString(m, "username"), c.User+"::")
		}
		for i, r := range c.Reqs {
			now := time.Now()
			tok := issued
			if r.Tok.Kind != "minted" {
				var err error
				if tok, err = c15Build(r.Tok, c, now); err != nil {
					return viol("c15/mint-error", "%v", err)
				}
			}
			verdict, reason, sub := c15Verdict(tok, c.Signed, now)
			q := url.Values{}
			switch r.Param {
			case "one":
				q.Set("access_token", tok)
			case "empty":
				q.Set("access_token", "")
			case "repeated":
				q.Add("access_token", tok)
				q.Add("access_token", "second")
			}
			resp, err := newBrowser().do(r.Method, in.URL("/tokeninfo?"+q.Encode()))
			if err != nil {
				return viol("c15/http", "%v", err)
			}
			desc := fmt.Sprintf("(real binary) request %d: signed=%v kind %s -> reference %s (%s); %s /tokeninfo (param %s) -> %d %q", i, c.Signed, r.Tok.Kind, verdict, reason, r.Method, r.Param, resp.Code, shorten(resp.Body))
			switch {
			case r.Method != "GET":
				if resp.Code != 405 {
					return viol("c15/method-not-refused", "%s", desc)
				}
			case r.Param == "absent" || r.Param == "empty" || tok == "":
				if resp.Code != 400 {
					return viol("c15/missing-param-status", "%s", desc)
				}
			case verdict == mustReject:
				if resp.Code != 403 {
					return viol("c15/status/"+r.Tok.Kind, "a token that must be refused: %s", desc)
				}
				if len(sub) >= 6 && strings.Contains(resp.Body, sub) {
					return viol("c15/claims-disclosed", "%s", desc)
				}
			case verdict == mustAccept:
				var out map[string]any
				if resp.Code != 200 || json.Unmarshal([]byte(resp.Body), &out) != nil || out["sub"] != c.User {
					return viol("c15/refused-valid/"+r.Tok.Kind, "a valid token: %s", desc)
				}
			}
		}
		return binHealthQuick(in)
	})
}

// variedName is a long user name that does not compress (the token is deflated before it is encrypted).
func variedName(n int) string {
	const alphabet = "abcdefghijklmnopqrstuvwxyzABCDEFGHIJKLMNOPQRSTUVWXYZ0123456789.-_@"
	b := make([]byte, n)
	x := uint32(2463534242)
	for i := range b {
		x ^= x << 13
		x ^= x >> 17
		x ^= x << 5
		b[i] = alphabet[x%uint32(len(alphabet))]
	}
	return string(b)
}

// ---- real time: a token that was accepted once is refused once it has expired ----

type c15Expiry struct {
	Signed  bool `json:"sign_and_encrypt"`
	ExpIn   int  `json:"exp_in_s"` // relative to the first presentation (negative: inside the verifier's leeway)
	WaitS   int  `json:"wait_s"`
	Presents int `json:"presentations_while_valid"`
}

func TestC15_EXPIRY(t *testing.T) {
	runProp(t, "C15_EXPIRY", func(t *rapid.T) c15Expiry {
		return c15Expiry{Signed: rapid.Bool().Draw(t, "signed"), ExpIn: rapid.SampledFrom([]int{-50, -48, -52}).Draw(t, "expIn"), WaitS: 16, Presents: rapid.IntRange(1, 3).Draw(t, "presents")}
	}, func(c c15Expiry) (bool, []string) { return true, []string{fmt.Sprintf("signed=%v", c.Signed)} }, func(c c15Expiry) *Violation {
		cc := c15Case{Signed: c.Signed, User: "expiry.user@example.org"}
		security.UserEncryptionKey = []byte(c15EncKey)
		c15CurSignKey = c15SignKey
		security.UserSigningKey = nil
		if c.Signed {
			security.UserSigningKey = []byte(c15SignKey)
		}
		now := time.Now()
		tok, err := c15Build(c15Tok{Kind: "exp", ExpIn: c.ExpIn}, cc, now)
		if err != nil {
			return viol("c15/mint-error", "%v", err)
		}
		get := func() int {
			req := httptest.NewRequest("GET", "/tokeninfo?access_token="+url.QueryEscape(tok), nil)
			rr := httptest.NewRecorder()
			web.TokenInfo(rr, req)
			return rr.Code
		}
		var first []int
		for i := 0; i < c.Presents; i++ {
			first = append(first, get())
		}
		time.Sleep(time.Until(now.Add(time.Duration(c.WaitS) * time.Second)))
		// exp is now more than 64 s in the past: beyond any leeway the verifier grants
		if code := get(); code != 403 {
			return viol("c15/accepted/expired-after-earlier-presentation", "a token with exp %d s before its first presentation (answered %v then) was answered %d when presented again %d s later, i.e. %d s after its expiry (mode signed=%v)", -c.ExpIn, first, code, c.WaitS, c.WaitS-c.ExpIn, c.Signed)
		}
		if _, err := security.UserInfo(context.Background(), tok); err == nil {
			return viol("c15/accepted/expired-after-earlier-presentation", "UserInfo accepts a token %d s after its expiry once it had been presented while valid (mode signed=%v)", c.WaitS-c.ExpIn, c.Signed)
		}
		return nil
	})
}

// ---- concurrent minting: a token minted for user U yields subject U whatever else is minted at the same time ----

type c15Conc struct {
	Signed  bool `json:"sign_and_encrypt"`
	Workers int  `json:"concurrent_users"`
	Each    int  `json:"tokens_each"`
}

func TestC15_CONC(t *testing.T) {
	runProp(t, "C15_CONC", func(t *rapid.T) c15Conc {
		return c15Conc{Signed: rapid.Bool().Draw(t, "signed"), Workers: rapid.IntRange(2, 24).Draw(t, "workers"), Each: rapid.IntRange(50, 400).Draw(t, "each")}
	}, func(c c15Conc) (bool, []string) { return true, []string{fmt.Sprintf("signed=%v", c.Signed)} }, func(c c15Conc) *Violation {
		security.UserEncryptionKey = []byte(c15EncKey)
		c15CurSignKey = c15SignKey
		security.UserSigningKey = nil
		if c.Signed {
			security.UserSigningKey = []byte(c15SignKey)
		}
		errs := make(chan string, c.Workers)
		var wg sync.WaitGroup
		for w := 0; w < c.Workers; w++ {
			wg.Add(1)
			go func(w int) {
				defer wg.Done()
				for i := 0; i < c.Each; i++ {
					user := fmt.Sprintf("user-%02d-%06d@example.org", w, i)
					tok, err := security.GenerateUserToken(context.Background(), user)
					if err != nil {
						errs <- fmt.Sprintf("cannot mint for %q: %v", user, err)
						return
					}
					// the reference decryption, not the gateway's own reader, says whose token this is
					if v, reason, sub := c15Verdict(tok, c.Signed, time.Now()); v != mustAccept || sub != user {
						errs <- fmt.Sprintf("the token minted for %q while %d other users were minting is, by the reference, %s (%s) with subject %q", user, c.Workers-1, v, reason, sub)
						return
					}
				}
			}(w)
		}
		wg.Wait()
		select {
		case e := <-errs:
			return viol("c15/concurrent-mint", "%s", e)
		default:
		}
		return nil
	})
}
