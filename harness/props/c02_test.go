package props

import (
	"context"
	"crypto/rand"
	"crypto/rsa"
	"encoding/json"
	"fmt"
	"strings"
	"sync"
	"testing"
	"time"

	"github.com/bolkedebruin/rdpgw/cmd/rdpgw/identity"
	"github.com/bolkedebruin/rdpgw/cmd/rdpgw/protocol"
	"github.com/bolkedebruin/rdpgw/cmd/rdpgw/security"
	"pgregory.net/rapid"

	"verif/harness/lab/ev"
	"verif/harness/lab/gwc"
	"verif/harness/lab/idp"
	"verif/harness/lab/jwx"
	"verif/harness/lab/sess"
	"verif/harness/lab/tsgu"
)

// C02 — access cookies are accepted only if gateway-minted, unexpired and IdP-valid.

type c02Tok struct {
	AT    int    `json:"access_token"` // which of the case's two IdP access tokens the cookie embeds
	Kind  string `json:"kind"`
	Seg   int    `json:"seg,omitempty"`
	Pos   int    `json:"pos,omitempty"`
	Val   int    `json:"val,omitempty"`
	Str   string `json:"str,omitempty"`
	ExpIn int    `json:"exp_in_s,omitempty"` // seconds from now (negative = past)
}

type c02Step struct {
	Op    string `json:"op"` // present | idp
	Tok   c02Tok `json:"token,omitempty"`
	AT    int    `json:"which,omitempty"`
	State string `json:"state,omitempty"` // ok | 401 | 500 | malformed
}

type c02Case struct {
	SmartCard bool    `json:"smartcard_auth_also_enabled,omitempty"`
	LongKey   bool    `json:"long_signing_key,omitempty"` // the gateway signs with a 64-character key (long enough for HS384/HS512, which it must refuse all the same)
	Caps      uint16  `json:"client_caps,omitempty"` // handshake capability value of the tunnels (inp level)
	IdleS     int     `json:"idle_before_tunnel_create_s,omitempty"`
	Steps []c02Step `json:"steps"`
	Level string    `json:"level"` // fn | inp
	Kind  string    `json:"transport,omitempty"`
}

var c02Kinds = []string{
	"valid", "valid", "minted", // harness-minted canonical / minted by security.GeneratePAAToken
	"subst", "bitflip", "trunc", "drop-seg", "extra-seg", "swap-seg", "whitespace", "padding", "noncanonical",
	"wrong-key", "empty-key", "alg-none", "alg-hs384", "alg-hs512", "alg-rs256", "alg-lower", "alg-absent", "hdr-crit", "hdr-b64",
	"iss-other", "iss-absent", "exp", "exp-absent", "exp-string", "nbf-future", "iat-future", "at-absent", "at-unknown",
	"json-flat", "json-general", "nested", "garbage", "empty",
	"wide-char", // one character replaced by a non-ASCII character whose UTF-16 code unit has the same low byte
}

func genC02Tok(t *rapid.T) c02Tok {
	k := c02Tok{AT: rapid.IntRange(0, 1).Draw(t, "at"), Kind: rapid.SampledFrom(c02Kinds).Draw(t, "kind")}
	switch k.Kind {
	case "subst", "bitflip":
		k.Seg, k.Pos, k.Val = rapid.IntRange(0, 2).Draw(t, "seg"), rapid.IntRange(0, 400).Draw(t, "pos"), rapid.IntRange(0, 63).Draw(t, "val")
	case "trunc":
		k.Pos = rapid.IntRange(0, 400).Draw(t, "pos")
	case "wide-char":
		k.Pos, k.Val = rapid.IntRange(0, 400).Draw(t, "pos"), rapid.SampledFrom([]int{0x01, 0x04, 0x20, 0x30, 0xd7, 0xe0, 0xff}).Draw(t, "highByte")
	case "drop-seg", "swap-seg":
		k.Seg = rapid.IntRange(0, 2).Draw(t, "seg")
	case "whitespace":
		k.Pos, k.Val = rapid.IntRange(0, 400).Draw(t, "pos"), rapid.IntRange(0, 3).Draw(t, "ws")
	case "exp":
		k.ExpIn = rapid.SampledFrom([]int{-3600, -300, -121, -90, -75, -64, -61, -60, -59, -56, -30, -1, 0, 1, 30}).Draw(t, "expIn")
	case "garbage":
		k.Str = rapid.StringN(0, 60, 80).Draw(t, "garbage")
	}
	return k
}

func genC02(t *rapid.T, level string) c02Case {
	c := c02Case{Level: level}
	if level == "inp" {
		c.Kind = genKind(t)
		c.SmartCard = rapid.Bool().Draw(t, "smartcard")
		c.Caps = 2
		if c.SmartCard {
			c.Caps = uint16(rapid.IntRange(1, 3).Draw(t, "clientCaps")) // smart card only, cookie only, both
		}
	}
	c.LongKey = rapid.IntRange(0, 3).Draw(t, "longKey") == 0
	n := rapid.IntRange(1, 6).Draw(t, "nsteps")
	for i := 0; i < n; i++ {
		if rapid.IntRange(0, 4).Draw(t, "idpOp") == 0 {
			c.Steps = append(c.Steps, c02Step{Op: "idp", AT: rapid.IntRange(0, 1).Draw(t, "which"), State: rapid.SampledFrom([]string{"ok", "401", "500", "malformed", "ok"}).Draw(t, "state")})
		} else {
			c.Steps = append(c.Steps, c02Step{Op: "present", Tok: genC02Tok(t)})
		}
	}
	return c
}

var (
	rsaOnce sync.Once
	rsaKey  *rsa.PrivateKey
)

const b64chars = "ABCDEFGHIJKLMNOPQRSTUVWXYZabcdefghijklmnopqrstuvwxyz0123456789-_"

// buildC02Tok renders the token text.
func buildC02Tok(k c02Tok, ats [2]string, ctx context.Context) string {
	w := W()
	at := ats[k.AT]
	now := time.Now()
	claims := cookieClaims(w.addr("A"), "127.0.0.1", at, w.User, now.Add(4*time.Minute))
	mint := func(hdr string, alg string, key any) string {
		p, _ := json.Marshal(claims)
		return jwx.SignCompact([]byte(hdr), p, alg, key)
	}
	valid := func() string { return mint(`{"alg":"HS256"}`, "HS256", w.Key) }
	switch k.Kind {
	case "valid":
		return valid()
	case "minted":
		id := identity.FromCtx(ctx)
		id.SetAttribute(identity.AttrAccessToken, at)
		tok, err := security.GeneratePAAToken(ctx, w.User, w.addr("A"))
		if err != nil {
			panic(err)
		}
		return tok
	case "subst", "bitflip":
		segs := strings.Split(valid(), ".")
		s := []byte(segs[k.Seg])
		p := k.Pos % len(s)
		if k.Kind == "subst" {
			s[p] = b64chars[k.Val]
		} else {
			i := strings.IndexByte(b64chars, s[p])
			s[p] = b64chars[i^(1<<uint(k.Val%6))]
		}
		segs[k.Seg] = string(s)
		return strings.Join(segs, ".")
	case "trunc":
		v := valid()
		return v[:k.Pos%len(v)]
	case "wide-char":
		v := []rune(valid())
		p := k.Pos % len(v)
		v[p] = rune(k.Val)<<8 | v[p]
		return string(v)
	case "drop-seg":
		segs := strings.Split(valid(), ".")
		return strings.Join(append(segs[:k.Seg:k.Seg], segs[k.Seg+1:]...), ".")
	case "extra-seg":
		return valid() + "." + jwx.B64([]byte("extra"))
	case "swap-seg":
		segs := strings.Split(valid(), ".")
		a, b := k.Seg, (k.Seg+1)%3
		segs[a], segs[b] = segs[b], segs[a]
		return strings.Join(segs, ".")
	case "whitespace":
		v := valid()
		ws := []string{" ", "\n", "\t", "\r\n"}[k.Val]
		p := k.Pos % (len(v) + 1)
		if k.Pos%3 == 0 {
			p = len(v) // trailing
		}
		return v[:p] + ws + v[p:]
	case "padding":
		segs := strings.Split(valid(), ".")
		return segs[0] + "." + segs[1] + "." + segs[2] + "="
	case "noncanonical":
		// change the unused trailing bits of the signature's last character: same decoded bytes
		v := valid()
		last := strings.IndexByte(b64chars, v[len(v)-1])
		return v[:len(v)-1] + string(b64chars[last|1]) // 32-byte MAC -> 43 chars, last char carries 4 significant bits
	case "wrong-key":
		return mint(`{"alg":"HS256"}`, "HS256", []byte("another-signing-key-of-32-chars!"))
	case "empty-key":
		return mint(`{"alg":"HS256"}`, "HS256", []byte{})
	case "alg-none":
		return mint(`{"alg":"none"}`, "none", nil)
	case "alg-hs384":
		return mint(`{"alg":"HS384"}`, "HS384", w.Key)
	case "alg-hs512":
		return mint(`{"alg":"HS512"}`, "HS512", w.Key)
	case "alg-rs256":
		rsaOnce.Do(func() { rsaKey, _ = rsa.GenerateKey(rand.Reader, 2048) })
		return mint(`{"alg":"RS256"}`, "RS256", rsaKey)
	case "alg-lower":
		return mint(`{"alg":"hs256"}`, "HS256", w.Key)
	case "alg-absent":
		return mint(`{"typ":"JWT"}`, "HS256", w.Key)
	case "hdr-crit":
		return mint(`{"alg":"HS256","crit":["exp"],"exp":1}`, "HS256", w.Key)
	case "hdr-b64":
		return mint(`{"alg":"HS256","b64":false,"crit":["b64"]}`, "HS256", w.Key)
	case "iss-other":
		claims["iss"] = "someone-else"
		return valid()
	case "iss-absent":
		delete(claims, "iss")
		return valid()
	case "exp":
		claims["exp"] = now.Add(time.Duration(k.ExpIn) * time.Second).Unix()
		return valid()
	case "exp-absent":
		delete(claims, "exp")
		return valid()
	case "exp-string":
		claims["exp"] = "tomorrow"
		return valid()
	case "nbf-future":
		claims["nbf"] = now.Add(time.Hour).Unix()
		return valid()
	case "iat-future":
		claims["iat"] = now.Add(time.Hour).Unix()
		return valid()
	case "at-absent":
		delete(claims, "accessToken")
		return valid()
	case "at-unknown":
		claims["accessToken"] = "at-never-issued"
		return valid()
	case "json-flat":
		segs := strings.Split(valid(), ".")
		return fmt.Sprintf(`{"protected":"%s","payload":"%s","signature":"%s"}`, segs[0], segs[1], segs[2])
	case "json-general":
		segs := strings.Split(valid(), ".")
		return fmt.Sprintf(`{"payload":"%s","signatures":[{"protected":"%s","signature":"%s"}]}`, segs[1], segs[0], segs[2])
	case "nested":
		inner := valid()
		return jwx.SignCompact([]byte(`{"alg":"HS256","cty":"JWT"}`), []byte(inner), "HS256", w.Key)
	case "garbage":
		return k.Str
	case "empty":
		return ""
	}
	panic("kind " + k.Kind)
}

const (
	mustReject = "MUST-REJECT"
	mustAccept = "MUST-ACCEPT"
	unspec     = "UNSPECIFIED"
)

func stripWS(s string) string {
	return strings.Map(func(r rune) rune {
		if r == ' ' || r == '\n' || r == '\r' || r == '\t' {
			return -1
		}
		return r
	}, s)
}

// refVerdict is the independent verifier of the statement. preIdP reports that the refusal is decided
// before the identity provider needs to be asked (so the forged token must not be forwarded to it).
func refVerdict(tok string, key []byte, now time.Time, idpState func(string) string) (verdict string, reason string, preIdP bool, accessToken string) {
	if tok == "" {
		return mustReject, "empty", true, ""
	}
	if s := stripWS(tok); s != tok {
		v, r, p, a := refVerdict(s, key, now, idpState)
		if v == mustAccept {
			v = unspec
		}
		return v, "whitespace+" + r, p, a
	}
	info, err := jwx.InspectJWS(tok, key)
	if err != nil {
		return mustReject, err.Error(), true, ""
	}
	at, _ := info.Claims["accessToken"].(string)
	if info.Alg != "HS256" {
		return mustReject, "alg " + info.Alg, true, at
	}
	if !info.MACOK && !info.MACCanon {
		return mustReject, "mac", true, at
	}
	verdict = mustAccept
	reason = "ok"
	if !info.MACOK {
		// non-canonical spelling of segments that decode to the bytes of a properly signed token
		verdict, reason = unspec, "non-canonical base64 of a signed token"
	}
	for h := range info.Header {
		if h != "alg" && h != "typ" && h != "kid" {
			verdict, reason = unspec, "extra header "+h
		}
	}
	if !info.Canonical {
		verdict, reason = unspec, "non-canonical base64"
	}
	if iss, _ := info.Claims["iss"].(string); iss != "rdpgw" {
		return mustReject, "iss", true, at
	}
	switch e := info.Claims["exp"].(type) {
	case nil:
		verdict, reason = unspec, "no exp"
	case float64:
		edge := float64(now.Unix()) - 60
		if e < edge-3 {
			return mustReject, "expired", true, at
		}
		if e < edge+3 {
			verdict, reason = unspec, "exp at the leeway edge"
		}
	default:
		verdict, reason = unspec, "non-numeric exp"
	}
	for _, c := range []string{"nbf", "iat"} {
		if v, ok := info.Claims[c].(float64); ok && v > float64(now.Unix()) {
			verdict, reason = unspec, c+" in the future"
		}
	}
	if st := idpState(at); !strings.HasPrefix(st, "ok:") {
		return mustReject, "idp:" + st, false, at
	}
	return verdict, reason, false, at
}

func runC02(c c02Case) *Violation {
	w := W()
	o := gwOpts{TokenAuth: true, SmartCard: c.SmartCard, HostSelection: "roundrobin", Hosts: []string{w.addr("A")}, VerifyIP: true}
	caps := c.Caps
	if caps == 0 {
		caps = 2
	}
	if c.LongKey {
		old := w.Key
		w.Key = append(append([]byte{}, old...), old...)
		defer func() { w.Key = old }()
	}
	return withGateway(mkGateway(o), func() *Violation {
		ats := [2]string{w.IdP.NewAccessToken("ok:" + w.User), w.IdP.NewAccessToken("ok:" + w.User)}
		for i, st := range c.Steps {
			if st.Op == "idp" {
				s := st.State
				if s == "ok" {
					s = "ok:" + w.User
				}
				w.IdP.SetAccessToken(ats[st.AT], s)
				continue
			}
			id := identity.NewUser()
			id.SetAttribute(identity.AttrClientIp, "127.0.0.1")
			tun := &protocol.Tunnel{User: identity.NewUser(), RemoteAddr: "127.0.0.1:1"}
			ctx := context.WithValue(context.WithValue(context.Background(), identity.CTXKey, identity.Identity(id)), protocol.CtxTunnel, tun)
			tok := buildC02Tok(st.Tok, ats, ctx)
			verdict, reason, preIdP, at := refVerdict(tok, w.Key, time.Now(), w.IdP.TokenState)
			before := 0
			if at != "" {
				before = w.IdP.UserinfoCount(at)
			}
			var accepted bool
			if c.Level == "fn" {
				ok, _ := security.CheckPAACookie(ctx, tok)
				accepted = ok
			} else {
				if strings.ContainsRune(tok, 0) {
					continue // a NUL cannot travel in the NUL-terminated cookie field
				}
				// the client carries on regardless of the answer: a refusal must be the end of the tunnel
				r := sess.Run(c.Kind, gwc.Target{Addr: inp().Addr}, [][]byte{tsgu.Handshake(1, 0, 0, caps), tsgu.TunnelCreate(tok, true), tsgu.TunnelAuth("pc"), tsgu.Handshake(0, 0, 0, caps)})
				resps, err := sess.Decode(r.Pkts)
				if err != nil || len(resps) < 2 || resps[1].Type != tsgu.PktTunnelResponse {
					return viol("c02/no-tunnel-response", "step %d: no tunnel response: %v %v", i, err, resps)
				}
				accepted = resps[1].Status == 0
				if !accepted && resps[1].Status != tsgu.ErrCookieDenied {
					return viol("c02/refusal-status", "step %d: cookie refused with status %#x, want cookie-access-denied", i, resps[1].Status)
				}
				if !accepted && (len(resps) != 2 || !r.Ended) {
					return viol("c02/tunnel-continues-after-refusal", "step %d: token kind %s was refused, yet the tunnel went on (ended=%v): the packets sent after the refusal were answered with %v", i, st.Tok.Kind, r.Ended, resps[2:])
				}
				if accepted && (len(resps) < 3 || resps[2].Type != tsgu.PktTunnelAuthResponse || resps[2].Status != 0) {
					return viol("c02/accepted-but-not-usable", "step %d: token kind %s was accepted but tunnel authorization did not follow: %v", i, st.Tok.Kind, resps)
				}
			}
			desc := fmt.Sprintf("step %d: token kind %s (%+v) -> reference %s (%s), gateway accepted=%v; token=%q", i, st.Tok.Kind, st.Tok, verdict, reason, accepted, shorten(tok))
			switch verdict {
			case mustReject:
				if accepted {
					return viol("c02/accepted/"+st.Tok.Kind+"/"+strings.SplitN(reason, ":", 2)[0], "a cookie that must be refused was accepted: %s", desc)
				}
				if preIdP && at != "" && w.IdP.UserinfoCount(at) != before {
					// not required by the statement (the cookie is refused either way): counted, not asserted
					ev.Note(map[bool]string{true: "C02_FN", false: "C02_INP"}[c.Level == "fn"], "forgery-forwarded-to-idp", 1)
				}
			case mustAccept:
				if !accepted {
					return viol("c02/refused-valid/"+st.Tok.Kind, "a valid cookie was refused: %s", desc)
				}
			}
			if st.Tok.Kind == "minted" {
				info, err := jwx.InspectJWS(tok, w.Key)
				if err != nil || !info.MACOK {
					return viol("c02/minted-not-verifiable", "a minted token does not verify under the configured key: %v", err)
				}
				exp, _ := info.Claims["exp"].(float64)
				if d := exp - float64(time.Now().Unix()); d > 301 {
					return viol("c02/minted-lifetime", "a minted token expires in %.0f s, more than five minutes", d)
				}
			}
		}
		return nil
	})
}

func shorten(s string) string {
	if len(s) > 90 {
		return s[:60] + "…" + s[len(s)-25:]
	}
	return s
}

func classifyC02(c c02Case) (bool, []string) {
	nt := false
	var cl []string
	presented := 0
	for _, s := range c.Steps {
		if s.Op == "present" {
			cl = append(cl, "kind="+s.Tok.Kind)
			if s.Tok.Kind != "garbage" && s.Tok.Kind != "empty" {
				nt = true
			}
			presented++
		} else {
			cl = append(cl, "idp="+s.State)
			if presented > 0 {
				cl = append(cl, "idp-change-after-presentation")
			}
		}
	}
	return nt, cl
}

func TestC02_FN(t *testing.T) {
	runProp(t, "C02_FN", func(t *rapid.T) c02Case { return genC02(t, "fn") }, classifyC02, runC02)
}

func TestC02_INP(t *testing.T) {
	runProp(t, "C02_INP", func(t *rapid.T) c02Case { return genC02(t, "inp") }, classifyC02, runC02)
}

// ---- BIN: the cookie is issued by the binary's own /connect, mutated, and presented to the same instance ----

type c02Bin struct {
	Steps []c02Step `json:"steps"`
	Kind  string    `json:"transport"`
}

func TestC02_BIN(t *testing.T) {
	runProp(t, "C02_BIN", func(t *rapid.T) c02Bin {
		c := genC02(t, "inp")
		return c02Bin{Steps: c.Steps, Kind: c.Kind}
	}, func(c c02Bin) (bool, []string) { return classifyC02(c02Case{Steps: c.Steps}) }, func(c c02Bin) *Violation {
		w := W()
		in, err := webInstance(webOpts{Store: "cookie", HostSelection: "roundrobin", Hosts: []string{w.addr("A")}, VerifyIP: true})
		if err != nil {
			return viol("bin/start", "%v", err)
		}
		// two logged-in sessions give two access tokens the identity provider knows
		var ats [2]string
		var issued [2]string
		for k := 0; k < 2; k++ {
			b := newBrowser()
			lr, code, err := b.login(in, idp.CodeSpec{Sub: w.User, Username: w.User})
			if err != nil || lr.Code != 302 {
				return viol("c02/setup", "login failed: %v %d", err, lr.Code)
			}
			_, ats[k], _ = w.IdP.IssuedFor(code)
			r, err := b.get(in, "/connect")
			if err != nil || r.Code != 200 {
				return viol("c02/setup", "download failed: %v %d", err, r.Code)
			}
			m, _ := parseRDP(r.Body)
			issued[k] = rdpString(m, "gatewayaccesstoken")
		}
		for i, st := range c.Steps {
			if st.Op == "idp" {
				s := st.State
				if s == "ok" {
					s = "ok:" + w.User
				}
				w.IdP.SetAccessToken(ats[st.AT], s)
				continue
			}
			var tok string
			switch st.Tok.Kind {
			case "minted":
				tok = issued[st.Tok.AT] // what the binary itself issued
			case "subst", "bitflip", "trunc":
				tok = mutateText(issued[st.Tok.AT], st.Tok)
			default:
				id := identity.NewUser()
				id.SetAttribute(identity.AttrClientIp, "127.0.0.1")
				ctx := context.WithValue(context.Background(), identity.CTXKey, identity.Identity(id))
				tok = buildC02Tok(st.Tok, ats, ctx)
			}
			if strings.ContainsRune(tok, 0) {
				continue
			}
			verdict, reason, _, _ := refVerdict(tok, w.Key, time.Now(), w.IdP.TokenState)
			r := sess.Run(c.Kind, gwc.Target{Addr: in.Addr}, [][]byte{tsgu.Handshake(1, 0, 0, 2), tsgu.TunnelCreate(tok, true), tsgu.Handshake(0, 0, 0, 2)})
			resps, err := sess.Decode(r.Pkts)
			if err != nil || len(resps) < 2 || resps[1].Type != tsgu.PktTunnelResponse {
				return viol("c02/no-tunnel-response", "step %d: no tunnel response: %v %v", i, err, resps)
			}
			accepted := resps[1].Status == 0
			desc := fmt.Sprintf("(real binary) step %d: token kind %s (%+v) -> reference %s (%s), accepted=%v, status %#x; token=%q", i, st.Tok.Kind, st.Tok, verdict, reason, accepted, resps[1].Status, shorten(tok))
			if verdict == mustReject && accepted {
				return viol("c02/accepted/"+st.Tok.Kind+"/"+strings.SplitN(reason, ":", 2)[0], "a cookie that must be refused was accepted: %s", desc)
			}
			if verdict == mustReject && resps[1].Status != tsgu.ErrCookieDenied {
				return viol("c02/refusal-status", "refused with another status than cookie-access-denied: %s", desc)
			}
			if verdict == mustAccept && !accepted {
				return viol("c02/refused-valid/"+st.Tok.Kind, "a valid cookie was refused: %s", desc)
			}
			if st.Tok.Kind == "minted" {
				info, ierr := jwx.InspectJWS(tok, w.Key)
				if ierr != nil || !info.MACOK {
					return viol("c02/minted-not-verifiable", "the token issued by the binary does not verify under the configured key: %v", ierr)
				}
				if exp, _ := info.Claims["exp"].(float64); exp-float64(time.Now().Unix()) > 301 {
					return viol("c02/minted-lifetime", "the issued token lives longer than five minutes")
				}
			}
		}
		return binHealthQuick(in)
	})
}

func mutateText(valid string, k c02Tok) string {
	switch k.Kind {
	case "subst", "bitflip":
		segs := strings.Split(valid, ".")
		s := []byte(segs[k.Seg])
		p := k.Pos % len(s)
		if k.Kind == "subst" {
			s[p] = b64chars[k.Val]
		} else {
			i := strings.IndexByte(b64chars, s[p])
			s[p] = b64chars[i^(1<<uint(k.Val%6))]
		}
		segs[k.Seg] = string(s)
		return strings.Join(segs, ".")
	case "trunc":
		return valid[:k.Pos%len(valid)]
	}
	return valid
}

// ---- expiry is judged when the cookie is presented, not when the connection was opened ----

type c02Idle struct {
	ExpAtConnect int    `json:"exp_relative_to_connect_s"` // e.g. -56: within the leeway when the websocket opens
	IdleS        int    `json:"idle_s"`
	Kind         string `json:"transport"`
}

func TestC02_IDLE(t *testing.T) {
	runProp(t, "C02_IDLE", func(t *rapid.T) c02Idle {
		return c02Idle{ExpAtConnect: rapid.SampledFrom([]int{-50, -49}).Draw(t, "exp"), IdleS: rapid.SampledFrom([]int{15, 16}).Draw(t, "idle"), Kind: genKind(t)}
	}, func(c c02Idle) (bool, []string) { return true, []string{"kind=" + c.Kind} }, func(c c02Idle) *Violation {
		w := W()
		o := gwOpts{TokenAuth: true, HostSelection: "roundrobin", Hosts: []string{w.addr("A")}, VerifyIP: true}
		return withGateway(mkGateway(o), func() *Violation {
			at := w.IdP.NewAccessToken("ok:" + w.User)
			conn, err := gwc.Dial(c.Kind, gwc.Target{Addr: inp().Addr}, sess.NewConnID())
			if err != nil {
				return viol("c02/open", "%v", err)
			}
			defer conn.Close()
			tok := jwx.MintHS256(cookieClaims(w.addr("A"), "127.0.0.1", at, w.User, time.Now().Add(time.Duration(c.ExpAtConnect)*time.Second)), w.Key)
			// control: at this moment the cookie is still within the leeway
			ctl := sess.Run(c.Kind, gwc.Target{Addr: inp().Addr}, [][]byte{tsgu.Handshake(1, 0, 0, 2), tsgu.TunnelCreate(tok, true), tsgu.Handshake(0, 0, 0, 2)})
			if rs, _ := sess.Decode(ctl.Pkts); len(rs) < 2 || rs[1].Status != 0 {
				return viol("c02/refused-valid/within-leeway", "a cookie %d s past expiry (inside the one-minute leeway) was refused: %v", -c.ExpAtConnect, rs)
			}
			// meanwhile: a correctly signed, unexpired cookie whose access token the identity provider is slow to judge
			// (7 s) and then rejects must not be accepted, however long the gateway is prepared to wait
			slow := make(chan *Violation, 1)
			go func() {
				sat := w.IdP.NewAccessToken("slow-401")
				stok := jwx.MintHS256(cookieClaims(w.addr("A"), "127.0.0.1", sat, w.User, time.Now().Add(4*time.Minute)), w.Key)
				id := identity.NewUser()
				id.SetAttribute(identity.AttrClientIp, "127.0.0.1")
				tun := &protocol.Tunnel{User: identity.NewUser(), RemoteAddr: "127.0.0.1:1"}
				ctx, cancel := context.WithTimeout(context.WithValue(context.WithValue(context.Background(), identity.CTXKey, identity.Identity(id)), protocol.CtxTunnel, tun), 12*time.Second)
				defer cancel()
				t0 := time.Now()
				if ok, _ := security.CheckPAACookie(ctx, stok); ok {
					slow <- viol("c02/accepted/idp-never-confirmed", "a cookie was accepted after %v although the identity provider had not confirmed its access token (it answers 401 after 7 s)", time.Since(t0).Round(time.Millisecond))
					return
				}
				slow <- nil
			}()
			// meanwhile, too: tokens minted at every moment of a wall-clock minute expire no later than five minutes after
			// they were issued (31 s of minting, twice a second, cover a second half of a minute whenever the case starts)
			mintWatch := make(chan *Violation, 1)
			go func() {
				mat := w.IdP.NewAccessToken("ok:" + w.User)
				for t0 := time.Now(); time.Since(t0) < 31*time.Second; time.Sleep(500 * time.Millisecond) {
					id := identity.NewUser()
					id.SetAttribute(identity.AttrClientIp, "127.0.0.1")
					id.SetAttribute(identity.AttrAccessToken, mat)
					mctx := context.WithValue(context.Background(), identity.CTXKey, identity.Identity(id))
					before := time.Now()
					mt, err := security.GeneratePAAToken(mctx, w.User, w.addr("A"))
					if err != nil {
						mintWatch <- viol("c02/mint-error", "%v", err)
						return
					}
					info, err := jwx.InspectJWS(mt, w.Key)
					exp, _ := info.Claims["exp"].(float64)
					if err != nil || !info.MACOK {
						mintWatch <- viol("c02/minted-not-verifiable", "a minted token does not verify under the configured key: %v", err)
						return
					}
					if d := exp - float64(before.Unix()); d > 301 {
						mintWatch <- viol("c02/minted-lifetime", "a token minted at %s expires %.0f s later, more than five minutes", before.Format("15:04:05.000"), d)
						return
					}
				}
				mintWatch <- nil
			}()
			conn.Send(tsgu.Handshake(1, 0, 0, 2))
			time.Sleep(time.Duration(c.IdleS) * time.Second)
			if v := <-slow; v != nil {
				return v
			}
			conn.Send(tsgu.TunnelCreate(tok, true))
			conn.Send(tsgu.Handshake(0, 0, 0, 2))
			r := sess.Collect(conn, sess.EndWait)
			rs, derr := sess.Decode(r.Pkts)
			if derr != nil || len(rs) < 2 || rs[1].Type != tsgu.PktTunnelResponse {
				return viol("c02/no-tunnel-response", "%v %v", derr, rs)
			}
			if rs[1].Status == 0 {
				return viol("c02/accepted/expired-on-idle-connection", "a cookie that is %d s past its expiry when presented (connection opened %d s earlier, when it was still inside the leeway) was accepted", -c.ExpAtConnect+c.IdleS, c.IdleS)
			}
			return <-mintWatch
		})
	})
}
