package props

import (
	"time"
	"bytes"
	"fmt"
	"sort"
	"testing"

	"pgregory.net/rapid"

	"verif/harness/lab/gwc"
	"verif/harness/lab/model"
	"verif/harness/lab/sess"
	"verif/harness/lab/tsgu"
)

// C08 — packet boundaries come from length fields, not from transport segmentation.

type c08Case struct {
	Opts gwOpts    `json:"gateway"`
	Kind string    `json:"transport"`
	Hist []PktSpec `json:"history"`
	Mode string    `json:"mode"`
	Cuts []int     `json:"cuts"`     // byte offsets into the concatenated packet stream (sorted, distinct)
	Empty []int    `json:"empty_units_before"` // websocket: an empty binary message is sent before unit #i (a read that carries no bytes)
	Bad  int       `json:"bad_at"`   // >=0: replace the length field of packet #Bad by BadLen (unframeable stream)
	BadLen uint32  `json:"bad_len"`
}

// genValidHistory: mostly a complete valid session so that the tunnel gets far, with bigger payloads.
func genValidHistory(t *rapid.T, o gwOpts, maxPayload int) []PktSpec {
	caps := o.serverCaps()
	h := []PktSpec{{K: "hs", Caps: caps, Major: 1, Minor: 2}}
	cookie := "none"
	if o.TokenAuth {
		cookie = "valid:A"
	}
	ta := PktSpec{K: "ta"}
	if rapid.IntRange(0, 3).Draw(t, "oddClientName") == 0 {
		ta.Mal = "odd" // judged by the metamorphic relation only: whatever the gateway makes of it, it makes the same of it in every segmentation
	}
	h = append(h, PktSpec{K: "tc", Cookie: cookie}, ta, PktSpec{K: "cc", Host: "A"})
	n := rapid.IntRange(0, 6).Draw(t, "ndata")
	bulk := maxPayload >= 16384 && rapid.IntRange(0, 4).Draw(t, "bulk") == 0 // many large data packets: more than one maximal packet's worth of bytes in flight
	if bulk {
		n = rapid.IntRange(6, 14).Draw(t, "nbulk")
	}
	for i := 0; i < n; i++ {
		if bulk {
			sz := rapid.SampledFrom([]int{4000, 8192, 16384, 32768, 65535}).Draw(t, "bulksz")
			seed := rapid.Byte().Draw(t, "bseed")
			b := make([]byte, sz)
			for j := range b {
				b[j] = seed + byte(j) + byte(j>>8)*3
			}
			h = append(h, PktSpec{K: "data", Payload: b})
			continue
		}
		switch rapid.IntRange(0, 7).Draw(t, "op") {
		case 0:
			h = append(h, PktSpec{K: "ka"})
		case 1:
			h = append(h, PktSpec{K: "unk", Type: rapid.SampledFrom(unknownTypes).Draw(t, "ut"), Body: genPayload(t, "ub", 30)})
		default:
			sz := rapid.SampledFrom([]int{0, 1, 2, 7, 8, 100, 1000, 4000, 4085, 4086, 4087, 4096, 5000, 8192, maxPayload}).Draw(t, "psz")
			if sz > maxPayload {
				sz = maxPayload
			}
			seed := rapid.Byte().Draw(t, "pseed")
			b := make([]byte, sz)
			for j := range b {
				b[j] = seed + byte(j) + byte(j>>8)*3
			}
			d := PktSpec{K: "data", Payload: b}
			if sz < 60000 && rapid.IntRange(0, 5).Draw(t, "overLong") == 0 {
				// inner length beyond the packet: what the gateway relays for it must still not depend on what
				// else arrived in the same read
				d.Mal, d.MalN = "over", rapid.IntRange(0, 599).Draw(t, "overBy")
			}
			h = append(h, d)
		}
	}
	if rapid.Bool().Draw(t, "close") {
		h = append(h, PktSpec{K: "close"})
	}
	// optionally cut the session short so that earlier phases end the history, too
	if rapid.IntRange(0, 4).Draw(t, "short") == 0 {
		h = h[:rapid.IntRange(1, len(h)).Draw(t, "upto")]
	}
	h = append(h, PktSpec{K: "hs", Caps: caps}, PktSpec{K: "hs", Caps: caps})
	return h
}

func genC08(t *rapid.T) c08Case {
	o := genC01Opts(t)
	c := c08Case{Opts: o, Kind: genKind(t), Bad: -1}
	maxPayload := 16384
	c.Hist = genValidHistory(t, o, maxPayload)
	// packet sizes are needed to draw cuts; cookies have a fixed length for a given kind, so render once here
	units, _ := render(histCfg{Opts: resolveHosts(o), Kind: c.Kind}, c.Hist, "127.0.0.1")
	var bounds []int // end offset of each packet
	total := 0
	for _, u := range units {
		total += len(u)
		bounds = append(bounds, total)
	}
	start := func(k int) int {
		if k == 0 {
			return 0
		}
		return bounds[k-1]
	}
	cutset := map[int]bool{}
	c.Mode = rapid.SampledFrom([]string{"one-cut", "two-cut", "multi-cut", "coalesce", "free", "header-cut", "unframeable"}).Draw(t, "mode")
	if c.Kind == "legacy" && rapid.IntRange(0, 6).Draw(t, "withHead") == 0 {
		c.Mode = "head-coalesced" // legacy: the first chunk arrives in the same segment as the RDG_IN_DATA request head
	}
	pk := rapid.IntRange(0, len(units)-1).Draw(t, "pkt")
	switch c.Mode {
	case "one-cut", "two-cut", "multi-cut", "header-cut":
		for _, b := range bounds { // packet boundaries stay unit boundaries
			cutset[b] = true
		}
		n := map[string]int{"one-cut": 1, "two-cut": 2, "header-cut": 1}[c.Mode]
		if c.Mode == "multi-cut" {
			n = rapid.IntRange(3, 8).Draw(t, "ncuts")
		}
		for i := 0; i < n; i++ {
			lo, hi := start(pk)+1, bounds[pk]-1
			if c.Mode == "header-cut" {
				hi = start(pk) + 7
			}
			if hi >= lo {
				cutset[rapid.IntRange(lo, hi).Draw(t, "cut")] = true
			}
		}
	case "head-coalesced":
		for _, b := range bounds {
			cutset[b] = true
		}
	case "coalesce":
		// group consecutive packets: keep each boundary with probability 1/3
		for _, b := range bounds {
			if rapid.IntRange(0, 2).Draw(t, "keep") == 0 {
				cutset[b] = true
			}
		}
	case "free":
		n := rapid.IntRange(1, 10).Draw(t, "ncuts")
		for i := 0; i < n; i++ {
			cutset[rapid.IntRange(1, total-1).Draw(t, "cut")] = true
		}
	case "unframeable":
		for _, b := range bounds {
			cutset[b] = true
		}
		c.Bad = pk
		c.BadLen = uint32(rapid.IntRange(0, 7).Draw(t, "badlen"))
		for i := range c.Hist { // this mode is judged by the reference model, which has no opinion on over-long inner lengths or odd name lengths
			if c.Hist[i].K == "data" || (c.Hist[i].K == "ta" && c.Hist[i].Mal == "odd") {
				c.Hist[i].Mal, c.Hist[i].MalN = "", 0
			}
		}
	}
	if c.Kind == "ws" && c.Mode != "unframeable" && rapid.IntRange(0, 3).Draw(t, "emptyUnits") == 0 {
		c.Empty = rapid.SliceOfN(rapid.IntRange(0, 12), 1, 3).Draw(t, "emptyAt")
	}
	delete(cutset, total)
	delete(cutset, 0)
	for k := range cutset {
		c.Cuts = append(c.Cuts, k)
	}
	sort.Ints(c.Cuts)
	return c
}

type c08Obs struct {
	Resps   []string
	Accepts map[string]int
	Bytes   map[string][]byte
	Ended   bool
}

func summarize(obs model.Obs) c08Obs {
	o := c08Obs{Accepts: obs.Accepts, Bytes: obs.Bytes, Ended: obs.Ended}
	for _, r := range obs.Resps {
		o.Resps = append(o.Resps, fmt.Sprintf("%x/%08x/%d.%d/%x/%x/%x/%x/%x", r.Type, r.Status, r.Major, r.Minor, r.ExtAuth, r.FieldsPresent, r.RedirFlags, r.IdleTimeout, r.ChannelID))
	}
	return o
}

func (a c08Obs) diff(b c08Obs) string {
	if fmt.Sprint(a.Resps) != fmt.Sprint(b.Resps) {
		return fmt.Sprintf("responses differ: one-packet-per-unit %v, segmented %v", a.Resps, b.Resps)
	}
	if a.Ended != b.Ended {
		return fmt.Sprintf("end of tunnel differs: %v vs %v", a.Ended, b.Ended)
	}
	for l := range a.Accepts {
		if a.Accepts[l] != b.Accepts[l] {
			return fmt.Sprintf("connections to listener %s differ: %d vs %d", l, a.Accepts[l], b.Accepts[l])
		}
		if !bytes.Equal(a.Bytes[l], b.Bytes[l]) {
			return fmt.Sprintf("bytes relayed to listener %s differ: %d bytes vs %d bytes (first difference at %d)", l, len(a.Bytes[l]), len(b.Bytes[l]), firstDiff(a.Bytes[l], b.Bytes[l]))
		}
	}
	return ""
}

func firstDiff(a, b []byte) int {
	n := len(a)
	if len(b) < n {
		n = len(b)
	}
	for i := 0; i < n; i++ {
		if a[i] != b[i] {
			return i
		}
	}
	return n
}

// sendSegmented delivers each unit as its own transport read: the gateway has consumed unit i before unit
// i+1 is written.
func sendSegmented(kind string, tgt gwc.Target, units [][]byte, firstWithHead bool) sess.Result {
	var c gwc.Conn
	var err error
	if firstWithHead && kind == "legacy" && len(units) > 0 && len(units[0]) > 0 && len(units[0]) < 3000 {
		id := sess.NewConnID()
		var l *gwc.Legacy
		if l, err = gwc.OpenOut(tgt, id); err == nil {
			l.FirstWithHead = units[0]
			if err = l.OpenIn(tgt, id); err != nil {
				l.Close()
			}
			c, units = l, units[1:]
		}
	} else {
		c, err = gwc.Dial(kind, tgt, sess.NewConnID())
	}
	if err != nil {
		return sess.Result{Kind: kind, OpenStatus: -1, OpenErr: err.Error()}
	}
	defer c.Close()
	for _, u := range units {
		if len(u) == 0 && kind != "ws" {
			continue // a zero-length HTTP chunk would end the request body
		}
		if err := c.Send(u); err != nil {
			break
		}
		if ws, ok := c.(*gwc.WS); ok {
			ws.SyncPeer()
		}
	}
	return sess.Collect(c, sess.EndWait)
}

func segClass(c c08Case, bounds []int) (nt bool, cl []string) {
	isBound := map[int]bool{}
	for _, b := range bounds {
		isBound[b] = true
	}
	inner := 0
	for _, k := range c.Cuts {
		if !isBound[k] {
			inner++
		}
	}
	missing := 0
	cs := map[int]bool{}
	for _, k := range c.Cuts {
		cs[k] = true
	}
	for _, b := range bounds[:len(bounds)-1] {
		if !cs[b] {
			missing++
		}
	}
	cl = []string{"mode=" + c.Mode, "kind=" + c.Kind}
	if inner > 0 {
		cl = append(cl, "cuts-inside-packet")
	}
	if missing > 0 {
		cl = append(cl, "coalesces-packets")
	}
	if len(c.Empty) > 0 {
		cl = append(cl, "empty-units")
	}
	return inner > 0 || missing > 0 || c.Bad >= 0 || len(c.Empty) > 0 || c.Mode == "head-coalesced", cl
}

func runC08(c c08Case) *Violation {
	o := resolveHosts(c.Opts)
	return withGateway(mkGateway(o), func() *Violation {
		pkts, evs := render(histCfg{Opts: o, Kind: c.Kind}, c.Hist, "127.0.0.1")
		tgt := inpTarget(userHeader(o, W().User)...)
		if c.Bad >= 0 && c.Bad < len(pkts) {
			// unframeable: the stream up to the bad header is processed normally; then the tunnel must end and
			// nothing after the bad header may be answered, relayed or connected.
			bad := append([]byte(nil), pkts[c.Bad]...)
			bad[4], bad[5], bad[6], bad[7] = byte(c.BadLen), 0, 0, 0
			units := append(append([][]byte{}, pkts[:c.Bad]...), bad)
			units = append(units, pkts[c.Bad+1:]...)
			obs, _, v := runHistory(c.Kind, tgt, units)
			if v != nil {
				return v
			}
			// reference: the prefix alone, followed by an abrupt end
			pe := append(append([]model.Ev{}, evs[:c.Bad]...), model.Ev{Kind: "unframeable"})
			for range pkts[c.Bad+1:] {
				pe = append(pe, model.Ev{Kind: "unframeable"})
			}
			if f := model.CheckTunnel(model.Cfg{ServerCaps: o.serverCaps(), TokenAuth: o.TokenAuth}, unframeableEvs(pe), obs); f != nil {
				return viol("c08/unframeable/"+f.Sig, "length field %d at packet #%d: %s\n history: %s\n responses: %v", c.BadLen, c.Bad, f.Msg, historyString(c.Hist), obs.Resps)
			}
			return nil
		}
		ref, _, v := runHistory(c.Kind, tgt, pkts)
		if v != nil {
			return viol("c08/reference-run/"+v.Sig, "%s", v.Msg)
		}
		// build the segmented units
		var stream []byte
		for _, p := range pkts {
			stream = append(stream, p...)
		}
		var units [][]byte
		prev := 0
		for _, k := range c.Cuts {
			if k > prev && k < len(stream) {
				units = append(units, stream[prev:k])
				prev = k
			}
		}
		units = append(units, stream[prev:])
		if len(c.Empty) > 0 {
			var withEmpty [][]byte
			for i, u := range units {
				for _, e := range c.Empty {
					if e == i {
						withEmpty = append(withEmpty, []byte{})
					}
				}
				withEmpty = append(withEmpty, u)
			}
			units = withEmpty
		}
		w := W()
		s := w.snap()
		r := sendSegmented(c.Kind, tgt, units, c.Mode == "head-coalesced")
		var seg model.Obs
		resps, err := sess.Decode(r.Pkts)
		seg.Accepts, seg.Bytes = w.observe(s, channelSuccesses(resps))
		seg.Ended = r.Ended
		if r.OpenStatus != 0 {
			return viol("c08/open", "transport did not open: %s", r.OpenErr)
		}
		if err != nil {
			return viol("c08/decode", "%v", err)
		}
		seg.Resps = resps
		if d := summarize(ref).diff(summarize(seg)); d != "" {
			nUnits, maxFrag := len(units), 0
			_ = nUnits
			for _, u := range units {
				if len(u) > maxFrag {
					maxFrag = len(u)
				}
			}
			return viol("c08/segmentation/"+c.Mode, "the same packet sequence has different effects when segmented (%s, %d units, cuts %v): %s\n history: %s",
				c.Mode, len(units), c.Cuts, d, historyString(c.Hist))
		}
		return nil
	})
}

// unframeableEvs maps the "unframeable" marker to an event the model treats as: the tunnel ends, silently or
// with an error, and nothing later is answered.
func unframeableEvs(evs []model.Ev) []model.Ev {
	out := make([]model.Ev, len(evs))
	for i, e := range evs {
		if e.Kind == "unframeable" {
			e = model.Ev{Kind: "unframeable"}
		}
		out[i] = e
	}
	return out
}

func TestC08_INP(t *testing.T) {
	runProp(t, "C08_INP", genC08,
		func(c c08Case) (bool, []string) {
			units, _ := render(histCfg{Opts: resolveHosts(c.Opts), Kind: c.Kind}, c.Hist, "127.0.0.1")
			var bounds []int
			tot := 0
			for _, u := range units {
				tot += len(u)
				bounds = append(bounds, tot)
			}
			return segClass(c, bounds)
		}, runC08)
}

var _ = tsgu.Packet

// ---- a complete packet is processed when it has arrived, whatever follows (or does not follow) it ----

type c08Settle struct {
	Opts  gwOpts `json:"gateway"`
	Kind  string `json:"transport"`
	Sizes []int  `json:"data_packet_sizes"` // total packet sizes (header + length field + payload); after each one the client stays silent until the host has the payload
	Seed  byte   `json:"seed"`
}

func TestC08_SETTLE(t *testing.T) {
	runProp(t, "C08_SETTLE", func(t *rapid.T) c08Settle {
		c := c08Settle{Opts: genC01Opts(t), Kind: genKind(t), Seed: rapid.Byte().Draw(t, "seed")}
		n := rapid.IntRange(1, 5).Draw(t, "n")
		for i := 0; i < n; i++ {
			sz := rapid.SampledFrom([]int{4096, 4096, 8192, 12288, 16384, 32768, 65536 - 1, 4095, 4097, 2048, 1024, 11, 100}).Draw(t, "size")
			if rapid.IntRange(0, 4).Draw(t, "anySize") == 0 {
				sz = rapid.IntRange(11, 20000).Draw(t, "sizeAny")
			}
			c.Sizes = append(c.Sizes, sz)
		}
		return c
	}, func(c c08Settle) (bool, []string) {
		cl := []string{"kind=" + c.Kind}
		nt := false
		for _, s := range c.Sizes {
			if s%4096 == 0 {
				nt = true
				cl = append(cl, "multiple-of-read-size")
				break
			}
		}
		return nt || len(c.Sizes) > 1, cl
	}, func(c c08Settle) *Violation {
		o := resolveHosts(c.Opts)
		return withGateway(mkGateway(o), func() *Violation {
			w := W()
			snap := w.snap()
			defer w.observe(snap, 0)
			conn, err := gwc.Dial(c.Kind, inpTarget(userHeader(o, w.User)...), sess.NewConnID())
			if err != nil {
				return viol("c08/open", "transport did not open: %v", err)
			}
			defer conn.Close()
			setup, _ := render(histCfg{Opts: o, Kind: c.Kind}, []PktSpec{{K: "hs", Caps: o.serverCaps()}, {K: "tc", Cookie: map[bool]string{true: "valid:A", false: "none"}[o.TokenAuth]}, {K: "ta"}, {K: "cc", Host: "A"}}, "127.0.0.1")
			for i, u := range setup {
				conn.Send(u)
				// every step is answered before the next one is sent
				if !waitFor(func() bool { return countPackets(conn) >= i+1 }) {
					return viol("c08/settle/no-answer", "set-up packet %d was not answered while the client stayed silent (%s): %d answers", i, c.Kind, countPackets(conn))
				}
			}
			host := w.L["A"].WaitAccept(snap["A"]+1, 10*time.Second)
			if host == nil {
				return viol("c08/setup", "no backend connection after a valid set-up")
			}
			total := 0
			for i, sz := range c.Sizes {
				n := sz - 10
				if n < 0 {
					n = 0
				}
				b := streamBytes(c.Seed, total, n)
				if err := conn.Send(tsgu.Data(b)); err != nil {
					return viol("c08/settle/send", "%v", err)
				}
				total += n
				if !host.WaitBytes(total, 3*time.Second) {
					return viol("c08/settle/packet-waits-for-more-bytes", "data packet %d (%d bytes in all, %s) arrived completely, yet its payload reached the host only in part (%d of %d bytes so far) while the client sent nothing more for 3 s; sizes %v", i, sz, c.Kind, len(host.Received()), total, c.Sizes)
				}
			}
			if want := streamBytes(c.Seed, 0, total); !bytes.Equal(host.Received(), want) {
				return viol("c08/settle/stream", "host received %d bytes, client sent %d (first difference at %d)", len(host.Received()), total, firstDiff(host.Received(), want))
			}
			return nil
		})
	})
}
