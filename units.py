# Table of check units per property: which test function decides what, with how many generated cases.
# quick/thorough = number of rapid cases (split over shards); budget_* = driver deadline in seconds.
UNITS = {
    "C01": [
        {"name": "C01_INP", "test": "TestC01_INP", "quick": 6000, "thorough": 120000, "shards": 12},
        {"name": "C01_BIN", "test": "TestC01_BIN", "quick": 120, "thorough": 2500, "shards": 4, "bin": True},
    ],
    "C02": [
        {"name": "C02_FN", "test": "TestC02_FN", "quick": 20000, "thorough": 1000000, "shards": 8},
        {"name": "C02_INP", "test": "TestC02_INP", "quick": 1500, "thorough": 60000, "shards": 6},
        {"name": "C02_IDLE", "test": "TestC02_IDLE", "quick": 4, "thorough": 48, "shards": 4},
        {"name": "C02_BIN", "test": "TestC02_BIN", "quick": 200, "thorough": 8000, "shards": 2, "bin": True},
        {"name": "C02_FUZZ", "test": "FuzzPAACookie", "quick": 0, "thorough": 0, "shards": 1, "fuzz": True, "fuzztime_thorough": "120s", "exclusive": True},
    ],
    "C03": [
        {"name": "C03_INP", "test": "TestC03_INP", "quick": 5000, "thorough": 100000, "shards": 12},
        {"name": "C03_BIN", "test": "TestC03_BIN", "quick": 60, "thorough": 800, "shards": 4, "bin": True},
    ],
    "C04": [
        {"name": "C04_INP", "test": "TestC04_INP", "quick": 3000, "thorough": 120000, "shards": 12},
        {"name": "C04_BIN", "test": "TestC04_BIN", "quick": 300, "thorough": 6000, "shards": 4, "bin": True},
    ],
    "C05": [
        {"name": "C05_BIN", "test": "TestC05_BIN", "quick": 480, "thorough": 40000, "shards": 8, "bin": True},
        {"name": "C05_CONC", "test": "TestC05_CONC", "quick": 60, "thorough": 2000, "shards": 2, "bin": True},
    ],
    "C06": [
        {"name": "C06_INP", "test": "TestC06_INP", "quick": 1500, "thorough": 60000, "shards": 12},
        {"name": "C06_BIN", "test": "TestC06_BIN", "quick": 200, "thorough": 6000, "shards": 4, "bin": True},
        {"name": "C06_STALL", "test": "TestC06_STALL", "quick": 32, "thorough": 400, "shards": 8},
    ],
    "C07": [
        {"name": "C07_INP", "test": "TestC07_INP", "quick": 240, "thorough": 10000, "shards": 8},
        {"name": "C07_BIN", "test": "TestC07_BIN", "quick": 60, "thorough": 2000, "shards": 4, "bin": True},
        {"name": "C07_RACE", "test": "TestC07_RACE", "quick": 40, "thorough": 600, "shards": 4, "bin": True, "race": True},
    ],
    "C08": [
        {"name": "C08_INP", "test": "TestC08_INP", "quick": 3000, "thorough": 60000, "shards": 16},
        {"name": "C08_SETTLE", "test": "TestC08_SETTLE", "quick": 600, "thorough": 12000, "shards": 4},
    ],
    "C09": [
        {"name": "C09_RACE", "test": "TestC09_RACE", "quick": 60, "thorough": 6000, "shards": 6, "bin": True, "race": True, "budget_quick": 900},
    ],
    "C10": [
        {"name": "C10_PKT", "test": "TestC10_PKT", "quick": 3000, "thorough": 100000, "shards": 8},
        {"name": "C10_BIN", "test": "TestC10_BIN", "quick": 300, "thorough": 10000, "shards": 3, "bin": True},
        {"name": "C10_TRAFFIC", "test": "TestC10_TRAFFIC", "quick": 80, "thorough": 2000, "shards": 4, "bin": True},
        {"name": "C10_HTTP", "test": "TestC10_HTTP", "quick": 90, "thorough": 4000, "shards": 3, "bin": True},
        {"name": "C10_NTLM", "test": "TestC10_NTLM", "quick": 20000, "thorough": 400000, "shards": 1},
        {"name": "C10_KDC", "test": "TestC10_KDC", "quick": 3000, "thorough": 60000, "shards": 1},
        {"name": "C10_FUZZ_TUNNEL", "test": "FuzzTunnelBytes", "quick": 0, "thorough": 0, "shards": 1, "fuzz": True, "fuzztime_thorough": "120s", "exclusive": True},
        {"name": "C10_FUZZ_NTLM", "test": "FuzzNTLMMessage", "quick": 0, "thorough": 0, "shards": 1, "fuzz": True, "fuzztime_thorough": "90s", "exclusive": True},
    ],
    "C17": [
        {"name": "C17_INP", "test": "TestC17_INP", "quick": 8000, "thorough": 20000, "shards": 12},
        {"name": "C17_BIN", "test": "TestC17_BIN", "quick": 80, "thorough": 1600, "shards": 4, "bin": True},
        {"name": "C17_EXH", "test": "TestC17_EXH", "quick": 0, "thorough": 262144, "shards": 16, "exclusive": True, "exhaustive_thorough": True},
    ],
    "C11": [
        {"name": "C11_INP", "test": "TestC11_INP", "quick": 500, "thorough": 6000, "shards": 12, "shrink": "60s"},
        {"name": "C11_BIN", "test": "TestC11_BIN", "quick": 120, "thorough": 1500, "shards": 4, "bin": True, "shrink": "60s"},
    ],
    "C12": [
        {"name": "C12_BIN", "test": "TestC12_BIN", "quick": 400, "thorough": 30000, "shards": 8, "bin": True},
        {"name": "C12_CONC", "test": "TestC12_CONC", "quick": 24, "thorough": 600, "shards": 2},
    ],
    "C13": [
        {"name": "C13_BIN", "test": "TestC13_BIN", "quick": 300, "thorough": 15000, "shards": 6, "bin": True},
        {"name": "C13_IDENT", "test": "TestC13_IDENT", "quick": 5000, "thorough": 100000, "shards": 2},
        {"name": "C13_EXPIRY", "test": "TestC13_EXPIRY", "quick": 0, "thorough": 2, "shards": 2, "bin": True},
    ],
    "C14": [
        {"name": "C14_FN", "test": "TestC14_FN", "quick": 40000, "thorough": 3000000, "shards": 8},
        {"name": "C14_CONC", "test": "TestC14_CONC", "quick": 240, "thorough": 6000, "shards": 8},
        {"name": "C14_FUZZ", "test": "FuzzNTLMMessage", "quick": 0, "thorough": 0, "shards": 1, "fuzz": True, "fuzztime_thorough": "120s", "exclusive": True},
    ],
    "C15": [
        {"name": "C15_FN", "test": "TestC15_FN", "quick": 10000, "thorough": 600000, "shards": 8},
        {"name": "C15_BIN", "test": "TestC15_BIN", "quick": 150, "thorough": 6000, "shards": 2, "bin": True},
        {"name": "C15_EXPIRY", "test": "TestC15_EXPIRY", "quick": 4, "thorough": 32, "shards": 4},
        {"name": "C15_CONC", "test": "TestC15_CONC", "quick": 24, "thorough": 600, "shards": 2},
        {"name": "C15_FUZZ", "test": "FuzzUserToken", "quick": 0, "thorough": 0, "shards": 1, "fuzz": True, "fuzztime_thorough": "120s", "exclusive": True},
    ],
    "C16": [
        {"name": "C16_INP", "test": "TestC16_INP", "quick": 4000, "thorough": 120000, "shards": 12},
        {"name": "C16_BIN", "test": "TestC16_BIN", "quick": 60, "thorough": 1600, "shards": 4, "bin": True},
        {"name": "C16_STALL", "test": "TestC16_STALL", "quick": 24, "thorough": 400, "shards": 8},
    ],
    "C18": [
        {"name": "C18_START", "test": "TestC18_START", "quick": 400, "thorough": 30000, "shards": 8, "bin": True},
        {"name": "C18_LOAD", "test": "TestC18_LOAD", "quick": 2000, "thorough": 100000, "shards": 2},
        {"name": "C18_PAIR", "test": "TestC18_PAIR", "quick": 24, "thorough": 600, "shards": 4, "bin": True},
    ],
    "C19": [
        {"name": "C19_MAP", "test": "TestC19_MAP", "quick": 8000, "thorough": 300000, "shards": 4},
        {"name": "C19_BUILDER", "test": "TestC19_BUILDER", "quick": 4000, "thorough": 160000, "shards": 4},
        {"name": "C19_TEMPLATE", "test": "TestC19_TEMPLATE", "quick": 3000, "thorough": 120000, "shards": 4},
        {"name": "C19_PARSE", "test": "TestC19_PARSE", "quick": 8000, "thorough": 300000, "shards": 4},
        {"name": "C19_FUZZ", "test": "FuzzRDPParse", "quick": 0, "thorough": 0, "shards": 1, "fuzz": True, "fuzztime_thorough": "120s", "exclusive": True},
    ],
    "C20": [
        {"name": "C20_FN", "test": "TestC20_FN", "quick": 320, "thorough": 6000, "shards": 16, "shrink": "90s", "budget_quick": 900},
        {"name": "C20_CONC", "test": "TestC20_CONC", "quick": 24, "thorough": 600, "shards": 4},
    ],
}

RULES = {
    "C05": "case = (startable subset of {openid, kerberos, local, ntlm} other than openid alone as a real instance with a fake authentication service that logs every verdict and delegates NTLM to the repository's verifier; 1-8 requests: method, transport, one of 32 Authorization header kinds incl. complete NTLM exchanges on one or two connections built by the harness's own NTLMv2 code, user, host probe); "
           "non-trivial = the header names a scheme or carries credentials",
    "C18": "case = (authentication subset incl. the 'basic' alias, TLS mode, host-selection mode, query-token key, number of hosts, keytab, token-auth true/false/default, each delivered by file, by RDPGW_ environment variable in the documented spelling, or both with the file carrying a conflicting value); "
           "plus key-length assignments (absent, 0, 1, 31, 32) for the five keys, and pairs of real instances sharing a short key; every configuration counts as non-trivial (the refuse/accept table has no trivial region), distinct = distinct case JSON",
    "C12": "case = (real instance: selection mode, host list with/without placeholder, domain splitting, user-name template, no-username, user tokens; 1-6 requests: session none/new/failed-login/authenticated as user u with sub =/!= user name, host parameter absent/listed/unlisted/valid or forged/expired/wrong-issuer/wrong-key query token, login address, download address incl. X-Forwarded-For, replay transport); "
           "non-trivial = authenticated session with a non-default dimension",
    "C13": "case = sequence of 1-9 browser actions over three cookie jars against one real instance (cookie or file store): visit /connect, login with a fault drawn from 13 fault points, cookie mutation (substitution at a position, truncation, append), cookie of an instance with other keys, fresh jar; after every action /connect is requested; "
           "plus identity contents through Marshal/Unmarshal in generated decode orders; non-trivial = a failing callback or a cookie manipulation followed by /connect",
    "C20": "case = (1-2 realms x 1-3 fake KDCs on TCP+UDP with behaviour reply / reply-and-keep-open / partial / close / silent / refuse, request realm absent / configured / other configured / unknown, Kerberos payload 0 B - 128 KiB, malformed request kinds); "
           "non-trivial = a well-formed request for a configured realm, or a malformed one that passes the method/length checks",
    "C14": "case = (user database of 1-5 users incl. empty passwords, duplicates and names differing only in case; sequence of 1-10 operations negotiate / authenticate(session, named user, key user, key password, domain, challenge source) / replay / garbage / bad base64 over 4 sessions); "
           "type-3 messages are built by the harness's own NTLMv2 implementation; non-trivial = a second attempt in a session, a proof keyed for another user, a foreign or stale challenge, or a replay; C14_CONC: 2-4 authenticate messages built from one challenge (named user / key user drawn independently, 0-2500 KiB of ignored trailing bytes, start offsets) released together, 4-24 rounds, non-trivial = one of them is keyed for another user than it names",
    "C15": "case = (key mode, user name, 1-4 requests: a member of the token family around a minted token - single-character/bit mutations of each of the five JWE segments, other keys/enc/alg/issuer, expiry offsets, the other mode's token, plain JWS, garbage - with method and parameter variations); "
           "verdict from an independent A128CBC-HS256/dir (+DEF) decryption; non-trivial = the token is not pure garbage",
    "C19": "cases = (a) maps of integer and string settings, (b) assignments of values to the RdpSettings fields by reflection, (c) templates rendered from such assignments with blank lines, comments and the b type letter, run through the download handler, "
           "(d) byte strings assembled from well-formed and near-valid lines; values contain ':', non-ASCII text, lines up to 4 KiB; non-trivial = a value with ':' / non-ASCII / empty / long, or (d) at least one candidate line",
    "C07": "case = program of 1-16 (thorough: 1-64) concurrent tunnels (transport, user with own host 127.0.0.<user>, identifier style, set-up ok / other user's host / bad cookie, tagged traffic ops, ending) "
           "preceded by an optional first generation whose hosts hang up, plus a legacy pairing probe; non-trivial = at least two overlapping tunnels of which one fails or ends other than by close",
    "C09": "case = workload program: 2-12 concurrent clients (both transports, start offsets) each running a script of data bursts, host bursts, keep-alives, unknown packets and one ending (close / protocol error / FIN / RST, optionally while the host is still sending) "
           "against a -race build of the real binary under GOMAXPROCS 2/4/16; non-trivial = at least two clients overlapping; oracle = no race report / runtime fault on stderr, strict framing of every received packet",
    "C11": "case = (transport, phase at which the tunnel ends 0-5, traffic in flight none/client/host/both, way of ending: CLOSE_CHANNEL, out-of-order packet, unframeable bytes, FIN or RST of websocket / legacy IN / legacy OUT); "
           "non-trivial = a backend connection existed or data was in flight; release bound 5 s",
    "C02": "case = sequence of 1-6 steps, each presenting one member of a token family built around a valid token (single-character/bit mutations, re-signing under other keys/algorithms, claim edits, JSON/nested forms, garbage) or changing the identity provider's state for an access token; "
           "verdict from an independent HS256/claims verifier; non-trivial = at least one presented token that is not pure garbage",
    "C03": "case = (host-selection mode, host list with/without placeholder, user, token host, requested name as raw UTF-16 + port) where the request is an allowed entry or a near-miss of one; "
           "every case is within one edit of an allowed entry (non-trivial); oracle = reference policy + accept log of a grid of loopback endpoints",
    "C04": "case = (verification switch, issuing address: TCP source + X-Forwarded-For lines, presenting address, relation between them, transport); non-trivial = the two addresses stand in a named relation (same, last octet, extra chain element, XFF vs peer, ...)",
    "C06": "case = (client stream split into DATA packets incl. mismatched length fields, host stream split into writes, interleaving schedule, transport); position-dependent content; "
           "non-trivial = more than one relay buffer (4086) in a direction, a boundary size, a mismatched cblen, or both directions active",
    "C16": "case = (2^7 redirect switches, idle timeout over int32, caps, outcome script, transport); non-trivial = at least one switch set or a non-accepting outcome; "
           "every server packet is decoded strictly by the harness's own MS-TSGU decoder and compared with the reference encoding",
    "C01": "case = (gateway config, transport, packet history from a phase-aware grammar + terminator); non-trivial = the history reaches an open channel "
           "or has a refused/out-of-order step after a successful one; distinct = distinct case JSON",
    "C08": "case = (config, transport, mostly-valid packet sequence, segmentation of its byte stream); non-trivial = the segmentation cuts inside a packet, "
           "coalesces >= 2 packets, or the stream is unframeable; distinct = distinct case JSON",
    "C10": "case = hostile input on one surface; non-trivial = passes the first validation layer of its surface (>= 8-byte header for packets); distinct = distinct case JSON",
    "C17": "case = (server cookie/smart-card setting, client capability value, version bytes, transport); generated by rapid "
           "(low-nibble subsets x high patterns, single bits, uniform) and compared with the reference predicate; every case is "
           "non-trivial; distinct = distinct case JSON",
}
