#!/bin/sh
# runs every registered quick (or $1) check once; prints one line each
tier=${1:-quick}
for id in $(python3 -c "import json;print(' '.join(c['property_id'] for c in json.load(open('/verif/MANIFEST.json'))['checks']))"); do
  s=$(date +%s); out=$(./check $id $tier 2>&1); rc=$?; e=$(date +%s)
  echo "$id rc=$rc $((e-s))s $(echo "$out" | grep -a -c '^KNOWN-FINDING') known | $(echo "$out" | grep -a '^OK\|^VIOLATION' | head -2 | tr '\n' ' ' | cut -c1-160)"
done
