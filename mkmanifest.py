#!/usr/bin/env python3
"""Regenerates MANIFEST.json from the table below and units.py (which properties have checks)."""
import json, os
from units import UNITS

BASE_OFF = "cd /repo && go test -mod=mod -json -vet=off -count=1 -timeout 25m ./..."

CLAIMS = {
 "C01": ("stateful property-based testing: phase-aware packet-history generator vs reference tunnel NFA + accept/relay logs (rapid)",
         "Generated packet histories (valid, out-of-order, repeated, malformed, after-end probes) are sent over both transports to the in-process gateway wired as in main.go and to the real binary; the observed responses, end-of-stream, accept logs and relayed bytes of harness-owned listeners must be a run of a reference NFA written from the statement. Exploration, not proof.",
         "4 C01"),
 "C02": ("property-based testing: generated token families and IdP fault sequences vs an independent HS256/claims verifier (rapid)",
         "Sequences of token presentations and identity-provider state changes are generated around valid tokens; every string gets a verdict MUST-REJECT / MUST-ACCEPT / UNSPECIFIED from the harness's own verifier (stdlib HMAC, JSON, the IdP's own table) and is checked at function level and through the tunnel (TUNNEL_RESPONSE status); minted tokens are checked for lifetime and acceptance; forged tokens must not reach the IdP.",
         "4 C02"),
 "C03": ("property-based testing: near-miss generator for channel requests vs reference host policy + endpoint grid accept log (rapid)",
         "Channel requests that are an allowed entry or one edit away from one (ports, NULs, prefixes, other users, IPv6 spellings, surrogates, odd lengths, over-long sizes) are generated for every selection mode, user and token host; allowed => exactly one connection to exactly the named endpoint, refused => resource-access-denied and no connection to any of the 3 ports x all loopback addresses the harness listens on. In-process and real binary.",
         "4 C03"),
 "C04": ("property-based testing (metamorphic over address pairs) vs reference client-address function (rapid)",
         "Tokens are issued through the repository's own EnrichContext + GeneratePAAToken path from a generated (TCP source, X-Forwarded-For) and presented from a related one; same address => channel, different address => access-denied and no backend connection, verification off => ignored.",
         "4 C04"),
 "C05": ("property-based testing of the real binary's gateway endpoint with a fake authentication backend whose verdict log is the ground truth (rapid)",
         "For every startable subset of mechanisms a real instance is driven with generated Authorization headers (absent, bare or truncated keywords, wrong case, disabled schemes, several header lines, Basic right/wrong/undecodable, NTLM exchanges in and out of order and across connections). Reaching the tunnel handler (101 / legacy 200+seed) must be justified by a confirming verdict in the backend's log for exactly these credentials, correct credentials of an enabled scheme must reach it, a request without header gets 401 with one challenge per enabled scheme, and after a confirmed login as user k only 127.0.0.k is reachable. Kerberos: there is no KDC, the harness issues the service ticket itself under the gateway's keytab key (valid) or a foreign key (must be refused). PAM is out of reach here (no PAM headers): its verdicts are the fake service's.",
         "4 C05"),
 "C06": ("property-based testing: generated stream pairs, packetisations and schedules vs byte-exact stream equality + independent packet decoder (rapid)",
         "Two position-dependent byte streams (up to 256 KiB quick / 2 MiB thorough), a split of the client stream into DATA packets (boundary sizes, length fields shorter/longer than carried), a split of the host stream into writes and an interleaving are generated; the host must receive exactly the declared payloads and the client exactly the host stream, every DATA packet decoding strictly. In-process and real binary, both transports. A second unit lets one side stop draining for up to 6.5 s (8 s thorough) while the other keeps sending, optionally with further tunnels relaying and with keep-alives or CLOSE_CHANNEL sent meanwhile; afterwards both streams must be complete and exact.",
         "4 C06"),
 "C07": ("stateful property-based testing of concurrent tunnel programs with tagged streams; per-tunnel solo-expectation oracle (rapid)",
         "Programs of concurrent tunnels are generated; every 64-byte block on every stream carries tunnel index, direction and offset, each user's allowed host is a distinct loopback address (127.0.0.<user>), so a byte, a phase, a user identity, a token host or a connection leaking from one tunnel into another is observed as a wrong block, a wrong endpoint, a refused valid set-up or an accepted invalid one. A legacy pairing probe sends on RDG_IN_DATA with an identifier similar to, but different from, an open RDG_OUT_DATA's. Client-side schedule is generated (incl. a legacy pair whose second request waits for another tunnel's end, and cookies of different accounts carrying the same subject); server-side interleavings are sampled. The same workload is also run against the race-detector build: memory touched by two tunnels without synchronisation is reported whatever the interleaving.",
         "4 C07"),
 "C08": ("metamorphic property-based testing: same packet sequence under generated segmentations (rapid)",
         "For generated packet sequences and generated segmentations of their byte stream (one/two/multi cuts, header cuts, coalescing, free cuts) the history (responses, accepts, relayed bytes, end) must equal the one-packet-per-unit run; unframeable streams must end the tunnel without later effects. Further modes: over-long inner length fields inside coalesced reads, the first legacy chunk travelling with the request head, and a unit in which the client stays silent after every complete packet until its effect is observed. Exploration.",
         "4 C08"),
 "C09": ("randomised concurrent workload generation against a race-detector build (rapid + go build -race); oracle: race reports, runtime faults, frame integrity",
         "Generated multi-client workload programs are run against the real binary built with -race; any 'WARNING: DATA RACE', concurrent-map or concurrent-write fault on its stderr, and any packet received by a client that does not decode strictly, is a violation. The race detector reports unsynchronised pairs that executed, independent of the interleaving actually taken; pairs the workloads never execute are not covered (DESIGN.md section 8).",
         "4 C09"),
 "C10": ("property-based fuzzing of every input surface with structure-aware generators + coverage-guided fuzz targets; oracle: no panic, no wedge, still serving",
         "Hostile inputs on each surface (packet streams and legacy orderings, socket-buffer configurations, Authorization headers, NTLM messages, KDC-proxy bodies, raw HTTP) are generated structure-aware; the oracle is the server error log / recovered panics / stderr of the real binary plus a liveness probe after every case. Exploration.",
         "4 C10"),
 "C11": ("property-based fault injection: generated (phase, in-flight traffic, way of ending) vs bounded-time release oracle (rapid)",
         "For each generated point of the exchange, traffic pattern and way of ending, the harness observes within 5 s: end-of-stream at the remote desktop host, closure of the client-facing connections by the gateway, no goroutine left inside the protocol package, the exported connection registry back to its size, the websocket/legacy gauges restored. In-process (goroutines, registry) and real binary (/metrics gauges, go_goroutines).",
         "4 C11"),
 "C12": ("property-based testing of the real binary's download endpoint against a reference selection policy, an independent claim decoder and replay through the tunnel (rapid)",
         "For generated instance configurations, sessions, host parameters and client addresses: unauthenticated => 302 to the IdP and no token; authenticated => 400 where the reference policy yields no host, otherwise a file (parsed by the harness's own grammar) naming the configured gateway and the policy's host, whose access token verifies under the configured key (harness's own HS256 verifier) with exactly the stated claims (host, user with/without domain, requesting address, the session's IdP access token, <= 5 min); host and token are then replayed through tunnel-create and channel-create from the same address to live listeners.",
         "4 C12"),
 "C13": ("stateful (model-based) property-based testing of browser sessions against the real binary + fake OpenID provider with fault switches (rapid)",
         "A model says which cookie jar is authenticated (only a callback with a state this instance issued, an exchangeable code and an ID token that verifies and names a user); after every generated action GET /connect must answer 200 with a connection file iff the model says so, with the user name of the claim. Faults are injected at every point of the callback; cookies are mutated or taken from an instance with other keys. The thorough tier adds a real 125 s wait for the state expiry.",
         "4 C13"),
 "C14": ("stateful property-based testing against a reference NTLMv2 verifier (session-challenge model) with an independent NTLMv2 message builder (rapid)",
         "Generated interleavings of negotiate, authenticate, replay and garbage messages over several sessions are applied to the repository's NTLM verifier; for every authenticate the harness recomputes, from the configured database only, HMAC_MD5(NTOWFv2(db[named user]), challenge of this session || blob): Authenticated must imply that equality (and the returned name), and a correct exchange must authenticate. C14_CONC sends several authenticate messages answering one challenge at the same time and applies the same implication to each answer. The verifier package is tested in-process; the rdpgw-auth binary itself cannot be built here (PAM headers).",
         "4 C14"),
 "C15": ("property-based testing: generated token families vs an independent dir/A128CBC-HS256 reference decryption (rapid)",
         "Tokens around a minted one are generated for both key modes and checked at security.UserInfo and at the /tokeninfo handler: MUST-REJECT => error / 403 without any claim in the body, minted for U => 200 with sub U, 400/405 as stated, user name not readable from the token text; the verdict comes from the harness's own AES-CBC + HMAC + inflate implementation (stdlib only), not from go-jose.",
         "4 C15"),
 "C16": ("property-based testing with an independent strict MS-TSGU decoder and a reference encoding of the redirection policy (rapid)",
         "All server packets of generated sessions (all 128 redirect-switch combinations, idle timeouts over int32, every outcome script, both transports, in-process and through the real binary's Caps.* configuration) are decoded strictly (type, header length, fieldsPresent vs bytes) and compared with the reference model (status 0 iff accepted, specific status codes) and the reference encoding of redirection flags and idle timeout. A further unit has the answer to CLOSE_CHANNEL built while the relay's write to a non-reading client is blocked and other tunnels build packets: every message received afterwards must still be exactly one well-formed packet.",
         "4 C16"),
 "C17": ("property-based testing against a reference predicate (rapid), exhaustive over the 4 x 65536 capability table in the thorough tier",
         "Every generated (server setting, client capability value, version bytes, transport) is sent as a handshake and compared with the reference predicate from the statement, including the advertised mechanisms, the version echo, the answer to the next step and the end of the tunnel on mismatch.",
         "4 C17"),
 "C18": ("property-based testing over the configuration lattice against a must-refuse predicate on the real binary's exit status, plus cross-instance key probes (rapid)",
         "Generated configurations are given to the real binary by file, environment or both; those the statement says must be refused have to exit non-zero without ever listening, the others have to start. config.Load is additionally checked in-process for key substitution (a configured 32-character key is kept, a shorter or absent one becomes a 32-character key that differs between instances), and pairs of real instances sharing a short key must not accept each other's access token, session cookie and user token while pairs sharing proper keys must.",
         "4 C18"),
 "C19": ("property-based testing: round trip, independent line grammar (differential) and per-setting reference; coverage-guided fuzzing of the parser in the thorough tier",
         "Generated settings maps must survive marshal/parse; generated assignments to all RdpSettings fields must print as CRLF-terminated name:(i|s):value lines without duplicates and read back equal through NewBuilderFromFile; templates rendered from such assignments must keep every non-default setting the gateway does not control and carry the gateway's values for the controlled ones (through web.Handler.HandleDownload); arbitrary byte strings are parsed differentially against the harness's own line grammar (error iff some line is malformed).",
         "4 C19"),
 "C20": ("property-based fault injection with scripted fake KDCs (TCP+UDP transcripts) and an independent DER codec for KDC-PROXY-MESSAGE (rapid)",
         "For generated krb5 configurations, KDC behaviours and requests the harness checks: a 200 body is DER KDC-PROXY-MESSAGE{kerb-message = the reply of a replying KDC of the requested realm} and that KDC received exactly the embedded message; nothing reaches KDCs of other realms; every request is answered within KDC timeout + margin (12 s); 405/411/413/400 for malformed requests with no KDC contacted. The handler is served by a real HTTP server in-process.",
         "4 C20"),
}

TRUST = ("Trusted: the harness's own MS-TSGU codec, reference models and fake peers (written from the statement and MS-TSGU, independent of the repository); "
         "Linux loopback TCP semantics; /proc/net and sock_diag are used for synchronisation only, never as an oracle. The verdict is 'held on everything explored'.")

def main():
    checks = []
    for pid in sorted(UNITS):
        if pid not in CLAIMS:
            continue
        tech, text, ref = CLAIMS[pid]
        checks.append({
            "property_id": pid,
            "quick_cmd": "./check %s quick" % pid,
            "thorough_cmd": "./check %s thorough" % pid,
            "evidence_file": "/verif/evidence/%s.json" % pid,
            "replay_cmd_template": "./check %s --replay {path}" % pid,
            "engine": "harness",
            "level_claimed": {"category": "exploration", "text": text, "design_ref": "DESIGN.md section " + ref},
            "level_note": TRUST,
            "technique": tech,
        })
    allp = [json.loads(l)["id"] for l in open(os.path.join(os.path.dirname(__file__) or ".", "properties.jsonl"))]
    na = [{"property_id": p, "reason": "check not built yet in this round (the design in DESIGN.md section 4 applies; no other technique is substituted)"}
          for p in allp if p not in [c["property_id"] for c in checks]]
    m = {
        "version": 1,
        "setup_cmd": "./check --build",
        "hooks": {"guard": "verif", "enable": "no source hooks are used; checks build /repo's working tree as it is (go build / go test -c through the harness module's replace directive)",
                  "baseline_off_cmd": BASE_OFF, "source_commits": [], "add_only": True},
        "engines": [{"name": "harness", "path": "/verif/harness", "serves_properties": [c["property_id"] for c in checks],
                     "kind_free_text": "Go module: pgregory.net/rapid v1.3.0 properties + native go fuzz targets over harness-owned peers (loopback hosts, fake IdP, fake auth service, fake KDCs), driven by /verif/check"}],
        "checks": checks,
        "not_applicable": na,
        "notes": "Fixes of genuine defects found by the checks are separate 'fix:' commits in /repo and are listed in /verif/known_findings.json.",
    }
    json.dump(m, open(os.path.join(os.path.dirname(__file__) or ".", "MANIFEST.json"), "w"), indent=1)

if __name__ == "__main__":
    main()
